/* Family "filter": DeserializationOption::Filter and the MessagePack routines instantiated with it (C11, C15, C03, C06).
 *
 * PART 1 (unit filter_real, -DU_FREAL): the REAL Filter::allow/allowArray/allowObject/allowValue/operator[] and the real
 *   JsonVariantConst primitives they are built on (operator bool = as<bool>, == true = compare/Comparer<bool>, is<JsonArrayConst>,
 *   is<JsonObjectConst>, isNull, operator[](index), operator[](key)), on an ARBITRARY filter node (every stored kind, every
 *   content, bound or unbound).  Only the two collection walks (ArrayData::getElement, ObjectData::getMember: loops, proved
 *   in the collections family) and the extension-slot lookup are stubs: they return an arbitrary child node / null.
 *   What is proved here is the FILTER CONTRACT the deserializers rely on:
 *     (F1) allowValue => allow && allowArray && allowObject      (F2) allowArray => allow, allowObject => allow
 *     (F3) allowValue ("the filter is true") => f[k] is f itself, for every kind of key (absorbing)
 *     (F4) f[string key] = member `key` if that is non-null, else member "*"
 *     (F5) f[integer index] = element `index`, NEVER the "*" member;   hence !allowArray => !f[index].allow()
 *     (F6) !allowObject => !f[key].allow()                        (F7) null / false entry => allow() false; exact answer table
 *     (F8) Filter(true) answers exactly as AllowAllFilter, recursively ("filter true is the identity").
 * PART 2 (units mpf_coll, mpf_variant, mpf_skip): MsgPackDeserializer<StubReader>::readArray/readObject/parseVariant<Filter>,
 *   skipBytes; modular: children, document side and the Filter are stubs; the Filter stub hands out abstract tokens whose answers
 *   are arbitrary EXCEPT for (F1)-(F6), i.e. exactly what PART 1 proves of the real class.
 */
#include "verif.h"
#if defined(U_MPCOLL)
/* ghost state named by the loop contracts of readArray/readObject<Filter> (contracts/filter.loops.json) */
static unsigned long g_n0;          /* announced element / member count */
static unsigned long g_entries;     /* entries completely processed (child returned Ok) */
static unsigned long g_child_calls; /* child parseVariant calls */
static unsigned long g_adds;        /* successful addElement / addMember calls */
static _Bool g_addmember_failed;
static unsigned g_derefs;
static unsigned long g_saves;       /* StringBuffer::save calls */
static unsigned long g_allowed;     /* entries whose sub-filter answered allow() == true */
static int g_stage;                 /* 0 between entries; 1 key read; 2 member filter selected; 3 key saved; 4 slot added */
static unsigned g_child_err;        /* the first error a callee reported (0 if none) */
static void *g_slot_now;            /* the slot the next child call must receive */
static unsigned g_cur_tok;          /* token of the sub-filter selected for the current entry */
static unsigned long g_index_calls; /* filter[...] selections */
struct tok_answers { _Bool allow, arr, obj, val; };
static struct tok_answers g_tok[4]; /* the answers of the abstract filters (fixed per run) */
#endif
#if defined(U_MPSKIP)
static unsigned long g_n0, g_reads;
static _Bool g_eof;
#endif
#ifdef VERIF_NATIVE
#include "lowered_types.h"
#else
#include "lowered.c"
#endif
typedef struct DeserializationOption__Filter Filter;
enum { E_OK = 0, E_EMPTY = 1, E_INCOMPLETE = 2, E_INVALID = 3, E_NOMEM = 4, E_TOODEEP = 5 };

/* ================================================================================================================== */
/* PART 1: the real Filter                                                                                            */
/* ================================================================================================================== */
#if defined(U_FREAL) || defined(U_FWALK)
/* VariantType tags (Variant/VariantContent.hpp) */
enum { T_NULL = 0, T_RAW = 3, T_LINKED = 4, T_OWNED = 5, T_BOOL = 6, T_UINT32 = 0x0A, T_INT32 = 0x0C, T_FLOAT = 0x0E,
       T_UINT64 = 0x1A, T_INT64 = 0x1C, T_DOUBLE = 0x1E, T_OBJECT = 0x20, T_ARRAY = 0x40 };
enum { K_NULL, K_FALSE, K_TRUE, K_NUMBER, K_STRING, K_ARRAY, K_OBJECT };
#ifdef U_FREAL
static union VariantExtension g_ext[4];    /* extension slots (64-bit payloads) */
#define EXT_OF(id) (&g_ext[(id) & 3])
#else
static union ResourceManager__SlotData g_slots[8];   /* the one pool of the hand-built filter document */
#define EXT_OF(id) (&g_slots[(id) & 7].extension)
#endif
/* ---- oracle, from the property text: kinds of filter entries and "true-ish" ---- */
static int spec_kind(const struct VariantData *v) {
  if (!v) return K_NULL;                              /* an unbound reference / a missing member is null */
  switch (v->type_) {
    case T_NULL: return K_NULL;
    case T_BOOL: return v->content_.asBoolean ? K_TRUE : K_FALSE;
    case T_ARRAY: return K_ARRAY;
    case T_OBJECT: return K_OBJECT;
    case T_RAW: case T_LINKED: case T_OWNED: return K_STRING;
    default: return K_NUMBER;
  }
}
/* true-ish: everything except null, false and the number zero */
static _Bool spec_truthy(const struct VariantData *v) {
  switch (spec_kind(v)) {
    case K_NULL: case K_FALSE: return 0;
    case K_NUMBER:
      if (v->type_ == T_UINT32) return v->content_.asUint32 != 0;
      if (v->type_ == T_INT32) return v->content_.asInt32 != 0;
      if (v->type_ == T_FLOAT) return v->content_.asFloat != 0;
      if (v->type_ == T_UINT64) return EXT_OF(v->content_.asSlotId)->asUint64 != 0;
      if (v->type_ == T_INT64) return EXT_OF(v->content_.asSlotId)->asInt64 != 0;
      return EXT_OF(v->content_.asSlotId)->asDouble != 0;
    default: return 1;
  }
}
#define SAME_FILTER(a, b) ((a).variant_.data_ == (b).variant_.data_ && (a).variant_.resources_ == (b).variant_.resources_)
#define NULL_VALUED(p) ((p) == 0 || (p)->type_ == T_NULL)

#endif

#ifdef U_FREAL
static struct ResourceManager g_rm;
static struct VariantData g_node;          /* the filter node under test */
static struct VariantData g_child[3];      /* nodes the collection lookups may hand out */
static char g_text[4];                     /* a linked string */
static unsigned long g_strnode_room[(sizeof(struct StringNode) + 8 + 7) / 8];
static struct VariantData *g_elem_ret, *g_key_ret, *g_star_ret;
static unsigned g_getelem_calls, g_getmember_calls, g_star_lookups, g_key_lookups;
static unsigned long g_getelem_index;
static char g_key[3];
static size_t g_strlen_ret;
size_t strlen(const char *p) { (void)p; return g_strlen_ret; }

/* ---- stubs: the collection walks return an arbitrary child (fixed per harness run) ---- */
struct VariantData *ArrayData__getElement__ulong_ResourceManager_p(struct ArrayData *self, unsigned long index, struct ResourceManager *resources) {
  CHECK(self == &g_node.content_.asArray && resources == &g_rm, "element lookup: in the filter's own array, with its resource manager");
  g_getelem_calls++; g_getelem_index = index;
  return g_elem_ret;
}
struct VariantData *ObjectData__getMember_StaticStringAdapter__StaticStringAdapter_ResourceManager_p(struct ObjectData *self, struct StaticStringAdapter key, struct ResourceManager *resources) {
  const char *s = key._b_ZeroTerminatedRamString.str_;
  CHECK(self == &g_node.content_.asObject && resources == &g_rm, "member lookup: in the filter's own object, with its resource manager");
  CHECK(s != 0, "member lookup: with a key");
  g_getmember_calls++;
  if (s[0] == '*' && s[1] == 0) { g_star_lookups++; return g_star_ret; }   /* the member named "*" */
  CHECK(s == g_key, "member lookup: any key other than \"*\" is the caller's key");
  g_key_lookups++;
  return g_key_ret;
}
union VariantExtension *ResourceManager__getExtension(struct ResourceManager *self, unsigned int id) {
  CHECK(self == &g_rm, "extension lookup: with the filter's resource manager");
  return &g_ext[id & 3];
}

/* ---- an arbitrary well-formed node ---- */
static void mk_node(struct VariantData *v) {
  uint64_t bits = in_u64();
  uint8_t k = in_u8();
  __CPROVER_assume(k < 13);
  memset(v, 0, sizeof *v);
  memcpy(&v->content_, &bits, sizeof v->content_ < 8 ? sizeof v->content_ : 8);
  v->type_ = k == 0 ? T_NULL : k == 1 ? T_RAW : k == 2 ? T_LINKED : k == 3 ? T_OWNED : k == 4 ? T_BOOL : k == 5 ? T_UINT32 :
             k == 6 ? T_INT32 : k == 7 ? T_FLOAT : k == 8 ? T_UINT64 : k == 9 ? T_INT64 : k == 10 ? T_DOUBLE : k == 11 ? T_OBJECT : T_ARRAY;
  v->next_ = in_u32();
  if (v->type_ == T_BOOL) v->content_.asBoolean = in_bool();
  if (v->type_ == T_LINKED) v->content_.asLinkedString = g_text;
  if (v->type_ == T_OWNED || v->type_ == T_RAW) v->content_.asOwnedString = g_strnode_room;
}
static void freal_init(void) {
  memset(&g_rm, 0, sizeof g_rm);
  g_ext[0].asUint64 = in_u64(); g_ext[1].asUint64 = in_u64(); g_ext[2].asUint64 = in_u64(); g_ext[3].asUint64 = in_u64();
  g_text[0] = in_char(); g_text[1] = in_char(); g_text[2] = in_char(); g_text[3] = 0;
  memset(g_strnode_room, 0, sizeof g_strnode_room);
  ((struct StringNode *)g_strnode_room)->length = in_u8() % 9;
  g_strlen_ret = in_u8() % 4;
  mk_node(&g_node); mk_node(&g_child[0]); mk_node(&g_child[1]); mk_node(&g_child[2]);
  uint8_t e = in_u8() % 4, m = in_u8() % 4, s = in_u8() % 4;     /* 3: the lookup finds nothing */
  g_elem_ret = e == 3 ? (struct VariantData *)0 : &g_child[e];
  g_key_ret = m == 3 ? (struct VariantData *)0 : &g_child[m];
  g_star_ret = s == 3 ? (struct VariantData *)0 : &g_child[s];
  g_getelem_calls = g_getmember_calls = g_star_lookups = g_key_lookups = 0; g_getelem_index = 0;
  g_key[0] = in_char(); g_key[1] = in_char(); g_key[2] = 0;
}
static Filter mk_filter(struct VariantData *node) { Filter f; memset(&f, 0, sizeof f); f.variant_.data_ = node; f.variant_.resources_ = &g_rm; return f; }

/* (F1) (F2) (F7): the four answers on every node */
void h_filter_answers(void) {
  freal_init();
  _Bool bound = in_bool();
  struct VariantData *node = bound ? &g_node : (struct VariantData *)0;
  struct VariantData before = g_node;
  Filter f = mk_filter(node);
  _Bool a = DeserializationOption__Filter__allow(&f);
  _Bool aa = DeserializationOption__Filter__allowArray(&f);
  _Bool ao = DeserializationOption__Filter__allowObject(&f);
  _Bool av = DeserializationOption__Filter__allowValue(&f);
  int k = spec_kind(node);
  COVER(!bound); COVER(k == K_NULL && bound); COVER(k == K_FALSE); COVER(k == K_TRUE); COVER(k == K_ARRAY); COVER(k == K_OBJECT);
  COVER(k == K_STRING && g_node.type_ == T_LINKED); COVER(k == K_STRING && g_node.type_ == T_OWNED); COVER(k == K_STRING && g_node.type_ == T_RAW);
  COVER(k == K_NUMBER && av); COVER(k == K_NUMBER && a && !av); COVER(k == K_NUMBER && !a);
  COVER(g_node.type_ == T_DOUBLE && bound && av); COVER(g_node.type_ == T_INT64 && bound && a); COVER(g_node.type_ == T_FLOAT && bound && !a);
  CHECK(!av || (a && aa && ao), "F1: allowValue => allow && allowArray && allowObject");
  CHECK(!aa || a, "F2: allowArray => allow");
#ifdef CANARY_F_ANSWERS
  CHECK((!ao || a) && k != K_OBJECT, "F2: allowObject => allow");
#else
  CHECK(!ao || a, "F2: allowObject => allow");
#endif
  CHECK(a == spec_truthy(node), "C11: allow() <=> the entry is true-ish (null, false and zero are not)");
  if (k == K_NULL || k == K_FALSE) CHECK(!a && !aa && !ao && !av, "C11/F7: a null or false entry admits nothing");
  if (k == K_TRUE) CHECK(a && aa && ao && av, "C11: true keeps a value entirely (every kind admitted)");
  if (k == K_ARRAY) CHECK(a && aa && !ao && !av, "C11: an array filter admits arrays only (any other kind becomes null)");
  if (k == K_OBJECT) CHECK(a && !aa && ao && !av, "C11: an object filter admits objects only (any other kind becomes null)");
  if (k == K_STRING) CHECK(a && !aa && !ao && !av, "C11: a string entry is true-ish but admits no kind (the kept value becomes null)");
  if (k == K_NUMBER) CHECK(aa == av && ao == av, "a number entry admits every kind or none");
  CHECK(g_getelem_calls == 0 && g_getmember_calls == 0, "the answers do not walk the filter document");
  CHECK(memcmp(&before, &g_node, sizeof before) == 0, "the filter document is not modified");
}

/* (F3) (F4) (F6): f[string key] */
void h_filter_index_key(void) {
  freal_init();
  _Bool bound = in_bool();
  struct VariantData *node = bound ? &g_node : (struct VariantData *)0;
  Filter f = mk_filter(node);
  _Bool av = DeserializationOption__Filter__allowValue(&f);
  _Bool ao = DeserializationOption__Filter__allowObject(&f);
  char *key = g_key;
  Filter r = DeserializationOption__Filter__op_index_constchar_p(&f, &key);
  int k = spec_kind(node);
  _Bool key_is_star = g_key[0] == '*' && g_key[1] == 0;
  struct VariantData *m = key_is_star ? g_star_ret : g_key_ret;       /* the member named by the key */
  COVER(av); COVER(!bound); COVER(k == K_OBJECT && !NULL_VALUED(m)); COVER(k == K_OBJECT && m == 0 && g_star_ret != 0);
  COVER(k == K_OBJECT && m != 0 && m->type_ == T_NULL && !NULL_VALUED(g_star_ret));  /* a member listed with null: "*" is consulted */
  COVER(k == K_OBJECT && m == 0 && g_star_ret == 0); COVER(k == K_ARRAY); COVER(k == K_OBJECT && key_is_star); COVER(k == K_STRING);
  COVER(k == K_OBJECT && g_key[0] == 0);
  if (av) {
    CHECK(SAME_FILTER(r, f), "C11/F3: the filter true is absorbing: f[key] is f");
    CHECK(g_getmember_calls == 0 && g_getelem_calls == 0, "F3: ... without any lookup");
  } else if (k == K_OBJECT) {
#ifdef CANARY_F_KEY
    CHECK(r.variant_.data_ == (NULL_VALUED(m) && g_key[0] != 'q' ? g_star_ret : m), "C11/F4: f[key] = member key if non-null, else member \"*\"");
#else
    CHECK(r.variant_.data_ == (NULL_VALUED(m) ? g_star_ret : m), "C11/F4: f[key] = member key if non-null, else member \"*\"");
#endif
    CHECK(r.variant_.resources_ == &g_rm, "F4: the sub-filter lives in the same document");
    CHECK(g_getmember_calls == (NULL_VALUED(m) ? 2u : 1u) && g_getelem_calls == 0, "F4: \"*\" is consulted only when the key gives nothing");
  } else {
    CHECK(NULL_VALUED(r.variant_.data_) && r.variant_.data_ == 0, "C11/F4: a filter that is not an object has no members: f[key] is null");
    CHECK(g_getmember_calls == 0 && g_getelem_calls == 0, "F4: ... and nothing is looked up");
  }
  _Bool ra = DeserializationOption__Filter__allow(&r);
  CHECK(ao || !ra, "C03/F6: !allowObject => !f[key].allow()  (readObject's null-object discipline)");
  CHECK(ra == spec_truthy(r.variant_.data_), "C11/F7: the member is kept iff its entry is true-ish (null / false / missing removes it)");
#ifdef STRICT_NULL_ENTRY
  /* the property read literally: a member LISTED with null is removed; "*" stands for any OTHER key */
  if (!av && k == K_OBJECT && !key_is_star && m != 0 && m->type_ == T_NULL)
    CHECK(!ra, "C11: a member listed with a null entry is removed even when the wildcard is true-ish");
#endif
}

/* (F3) (F5): f[integer index], both instantiations used by the deserializers (0U in MessagePack, size_t in JSON) */
void h_filter_index_int(void) {
  freal_init();
  _Bool bound = in_bool();
  struct VariantData *node = bound ? &g_node : (struct VariantData *)0;
  Filter f = mk_filter(node);
  _Bool av = DeserializationOption__Filter__allowValue(&f);
  _Bool aa = DeserializationOption__Filter__allowArray(&f);
  _Bool wide = in_bool();
  unsigned long idx = wide ? in_u64() : in_u32();
  unsigned int idx32 = (unsigned int)idx;
  Filter r = wide ? DeserializationOption__Filter__op_index_ulong(&f, &idx) : DeserializationOption__Filter__op_index_uint(&f, &idx32);
  int k = spec_kind(node);
  COVER(av); COVER(!bound); COVER(k == K_ARRAY && g_elem_ret != 0 && wide); COVER(k == K_ARRAY && g_elem_ret == 0 && !wide); COVER(k == K_ARRAY && idx == 0);
  COVER(k == K_ARRAY && idx > 0xFFFFFFFFul); COVER(k == K_OBJECT && !NULL_VALUED(g_star_ret)); COVER(k == K_STRING); COVER(k == K_NUMBER && !av);
  if (av) {
    CHECK(SAME_FILTER(r, f), "C11/F3: the filter true is absorbing: f[index] is f");
    CHECK(g_getmember_calls == 0 && g_getelem_calls == 0, "F3: ... without any lookup");
  } else {
#ifdef CANARY_F_INT
    CHECK(g_getmember_calls == 0 && !(k == K_ARRAY && idx == 7), "C11/F5: \"*\" stands for any other KEY: it is never consulted for an integer index");
#else
    CHECK(g_getmember_calls == 0, "C11/F5: \"*\" stands for any other KEY: it is never consulted for an integer index");
#endif
    if (k == K_ARRAY) {
      CHECK(g_getelem_calls == 1 && g_getelem_index == idx, "C11/F5: f[index] looks up exactly that element");
      CHECK(r.variant_.data_ == g_elem_ret && r.variant_.resources_ == &g_rm, "C11/F5: f[index] = element index of an array filter");
    } else {
      CHECK(r.variant_.data_ == 0 && g_getelem_calls == 0, "C11/F5: a filter that is not an array has no elements: f[index] is null");
    }
  }
  _Bool ra = DeserializationOption__Filter__allow(&r);
  CHECK(aa || !ra, "C03/F5: !allowArray => !f[index].allow()  (readArray's null-array discipline)");
  CHECK(ra == spec_truthy(r.variant_.data_), "C11/F7: the element is kept iff the entry is true-ish");
}

/* (F8) Filter(true) == AllowAllFilter, recursively: the mechanised half of "the filter true is the identity" */
void h_filter_true_identity(void) {
  freal_init();
  g_node.type_ = T_BOOL; g_node.content_.asBoolean = 1;
  Filter f = mk_filter(&g_node);
  struct AllowAllFilter all; memset(&all, 0, sizeof all);
  uint8_t which = in_u8() % 3;
  unsigned long i64 = in_u64(); unsigned int i32 = in_u32(); char *key = g_key;
  Filter r; struct AllowAllFilter rall;
  if (which == 0) { r = DeserializationOption__Filter__op_index_uint(&f, &i32); rall = AllowAllFilter__op_index_uint(&all, &i32); }
  else if (which == 1) { r = DeserializationOption__Filter__op_index_ulong(&f, &i64); rall = AllowAllFilter__op_index_ulong(&all, &i64); }
  else { r = DeserializationOption__Filter__op_index_constchar_p(&f, &key); rall = AllowAllFilter__op_index_constchar_p(&all, &key); }
  COVER(which == 0); COVER(which == 1); COVER(which == 2);
  CHECK(AllowAllFilter__allow(&all) && AllowAllFilter__allowArray(&all) && AllowAllFilter__allowObject(&all) && AllowAllFilter__allowValue(&all),
        "AllowAllFilter answers true everywhere");
  CHECK(AllowAllFilter__allow(&rall) && AllowAllFilter__allowArray(&rall) && AllowAllFilter__allowObject(&rall) && AllowAllFilter__allowValue(&rall),
        "AllowAllFilter[k] answers true everywhere");
  CHECK(DeserializationOption__Filter__allow(&f) == AllowAllFilter__allow(&all) && DeserializationOption__Filter__allowArray(&f) == AllowAllFilter__allowArray(&all) &&
        DeserializationOption__Filter__allowObject(&f) == AllowAllFilter__allowObject(&all) && DeserializationOption__Filter__allowValue(&f) == AllowAllFilter__allowValue(&all),
        "C11/F8: Filter(true) gives the four answers of AllowAllFilter");
#ifdef CANARY_F_TRUE
  CHECK(SAME_FILTER(r, f) && which != 1, "C11/F8: Filter(true)[k] is Filter(true) again, for every kind of key");
#else
  CHECK(SAME_FILTER(r, f), "C11/F8: Filter(true)[k] is Filter(true) again, for every kind of key");
#endif
  CHECK(DeserializationOption__Filter__allow(&r) && DeserializationOption__Filter__allowArray(&r) && DeserializationOption__Filter__allowObject(&r) && DeserializationOption__Filter__allowValue(&r),
        "C11/F8: ... so every sub-filter answers as AllowAllFilter's sub-filter does");
  CHECK(g_getmember_calls == 0 && g_getelem_calls == 0, "F8: no lookup in the filter document");
}
#endif /* U_FREAL */

/* ================================================================================================================== */
/* unit filter_walk (class B, bounded cross-check of the stub model used above): NOTHING is stubbed - the real Filter  */
/* on a hand-built filter document in a real slot pool (object of <= 2 members / array of <= 2 elements / scalar;     */
/* keys of <= 2 characters), walked by the real ObjectData::findKey, ArrayData::at, stringEquals, getVariant.           */
/* ================================================================================================================== */
#ifdef U_FWALK
static struct ResourceManager g_rm;
static char g_k1[3], g_k2[3], g_key[3], g_star[2];
static unsigned long g_k2node[(sizeof(struct StringNode) + 8 + 7) / 8];
static unsigned g_members;     /* members / elements in the root */
#define SLOT(i) (&g_slots[i].variant)
static _Bool eq3(const char *a, const char *b) { return a[0] == b[0] && (a[0] == 0 || (a[1] == b[1] && (a[1] == 0 || a[2] == b[2]))); }
static void mk_value(struct VariantData *v, unsigned ext_slot) {
  uint8_t k = in_u8() % 10;
  uint32_t bits = in_u32();
  memset(&v->content_, 0, sizeof v->content_);
  switch (k) {
    case 0: v->type_ = T_NULL; break;
    case 1: v->type_ = T_BOOL; v->content_.asBoolean = (bits & 1) != 0; break;
    case 2: v->type_ = T_UINT32; v->content_.asUint32 = bits; break;
    case 3: v->type_ = T_INT32; v->content_.asUint32 = bits; break;
    case 4: v->type_ = T_FLOAT; v->content_.asUint32 = bits; break;
    case 5: v->type_ = T_UINT64; v->content_.asSlotId = ext_slot; g_slots[ext_slot].extension.asUint64 = in_u64(); break;
    case 6: v->type_ = T_DOUBLE; v->content_.asSlotId = ext_slot; g_slots[ext_slot].extension.asUint64 = in_u64(); break;
    case 7: v->type_ = T_ARRAY; v->content_.asCollection.head_ = NULL_SLOT; v->content_.asCollection.tail_ = NULL_SLOT; break;
    case 8: v->type_ = T_OBJECT; v->content_.asCollection.head_ = NULL_SLOT; v->content_.asCollection.tail_ = NULL_SLOT; break;
    default: v->type_ = T_LINKED; v->content_.asLinkedString = g_k1; break;
  }
}
static void fwalk_init(void) {
  memset(g_slots, 0, sizeof g_slots);
  memset(&g_rm, 0, sizeof g_rm);
  g_rm.variantPools_.pools_ = g_rm.variantPools_.preallocatedPools_;
  g_rm.variantPools_.preallocatedPools_[0].slots_ = g_slots;
  g_rm.variantPools_.preallocatedPools_[0].capacity_ = 8; g_rm.variantPools_.preallocatedPools_[0].usage_ = 8;
  g_rm.variantPools_.count_ = 1; g_rm.variantPools_.capacity_ = 4; g_rm.variantPools_.freeList_ = NULL_SLOT;
  g_k1[0] = in_char(); g_k1[1] = in_char(); g_k1[2] = 0;
  g_k2[0] = in_char(); g_k2[1] = in_char(); g_k2[2] = 0;
  g_key[0] = in_char(); g_key[1] = in_char(); g_key[2] = 0;
  g_star[0] = '*'; g_star[1] = 0;
  memset(g_k2node, 0, sizeof g_k2node);
  struct StringNode *n2 = (struct StringNode *)g_k2node;
  n2->length = g_k2[0] == 0 ? 0 : g_k2[1] == 0 ? 1 : 2; n2->references = 1;
  n2->data[0] = g_k2[0]; n2->data[1] = g_k2[1]; n2->data[2] = 0;
  uint8_t shape = in_u8() % 3;          /* 0 object, 1 array, 2 scalar */
  g_members = in_u8() % 3;
  SLOT(1)->type_ = T_LINKED; SLOT(1)->content_.asLinkedString = g_k1; SLOT(1)->next_ = 2;
  mk_value(SLOT(2), 6);
  SLOT(3)->type_ = T_OWNED; SLOT(3)->content_.asOwnedString = g_k2node; SLOT(3)->next_ = 4;
  mk_value(SLOT(4), 7); SLOT(4)->next_ = NULL_SLOT;
  SLOT(0)->next_ = NULL_SLOT;
  if (shape == 0) {
    SLOT(0)->type_ = T_OBJECT;
    SLOT(0)->content_.asCollection.head_ = g_members ? 1 : NULL_SLOT; SLOT(0)->content_.asCollection.tail_ = g_members == 2 ? 4 : g_members ? 2 : NULL_SLOT;
    SLOT(2)->next_ = g_members == 2 ? 3 : NULL_SLOT;
  } else if (shape == 1) {
    SLOT(0)->type_ = T_ARRAY;
    SLOT(0)->content_.asCollection.head_ = g_members ? 2 : NULL_SLOT; SLOT(0)->content_.asCollection.tail_ = g_members == 2 ? 4 : g_members ? 2 : NULL_SLOT;
    SLOT(2)->next_ = g_members == 2 ? 4 : NULL_SLOT;
  } else {
    mk_value(SLOT(0), 5);
    __CPROVER_assume(SLOT(0)->type_ != T_ARRAY && SLOT(0)->type_ != T_OBJECT);
  }
}
/* the document as the property reads it: first member with an equal key; i-th element */
static struct VariantData *spec_member(const char *key) {
  if (SLOT(0)->type_ != T_OBJECT) return 0;
  if (g_members >= 1 && eq3(g_k1, key)) return SLOT(2);
  if (g_members >= 2 && eq3(g_k2, key)) return SLOT(4);
  return 0;
}
static struct VariantData *spec_element(unsigned long i) {
  if (SLOT(0)->type_ != T_ARRAY) return 0;
  if (g_members >= 1 && i == 0) return SLOT(2);
  if (g_members >= 2 && i == 1) return SLOT(4);
  return 0;
}
void h_fwalk_key(void) {
  fwalk_init();
  Filter f; f.variant_.data_ = SLOT(0); f.variant_.resources_ = &g_rm;
  _Bool av = DeserializationOption__Filter__allowValue(&f), ao = DeserializationOption__Filter__allowObject(&f);
  char *key = g_key;
  Filter r = DeserializationOption__Filter__op_index_constchar_p(&f, &key);
  struct VariantData *m = spec_member(g_key), *star = spec_member(g_star);
  struct VariantData *expect = av ? SLOT(0) : (NULL_VALUED(m) ? star : m);
  COVER(av); COVER(m != 0 && m == SLOT(4) && !NULL_VALUED(m)); COVER(m == 0 && star == SLOT(4)); COVER(m != 0 && NULL_VALUED(m) && star != 0 && !NULL_VALUED(star)); COVER(m == 0 && star == 0 && g_members == 2);
  COVER(spec_kind(SLOT(0)) == K_ARRAY && g_members == 2); COVER(g_key[0] == 0 && m != 0); COVER(m == SLOT(2) && g_members == 2 && eq3(g_k1, g_k2));
#ifdef CANARY_FWALK_KEY
  CHECK(r.variant_.data_ == expect && !(m == SLOT(4) && g_key[0] == 'b'), "C11/F4 on a real document: f[key] = member key if non-null, else member \"*\" (true: f itself)");
#else
  CHECK(r.variant_.data_ == expect, "C11/F4 on a real document: f[key] = member key if non-null, else member \"*\" (true: f itself)");
#endif
  _Bool ra = DeserializationOption__Filter__allow(&r);
  CHECK(ra == spec_truthy(expect), "C11/F7 on a real document: kept iff the entry is true-ish");
  CHECK(ao || !ra, "C03/F6 on a real document: !allowObject => !f[key].allow()");
}
void h_fwalk_int(void) {
  fwalk_init();
  Filter f; f.variant_.data_ = SLOT(0); f.variant_.resources_ = &g_rm;
  _Bool av = DeserializationOption__Filter__allowValue(&f), aa = DeserializationOption__Filter__allowArray(&f);
  unsigned int idx = in_u8() % 4;
  Filter r = DeserializationOption__Filter__op_index_uint(&f, &idx);
  struct VariantData *expect = av ? SLOT(0) : spec_element(idx);
  struct VariantData *star = spec_member(g_star);
  COVER(av); COVER(spec_kind(SLOT(0)) == K_ARRAY && idx == 1 && expect != 0); COVER(spec_kind(SLOT(0)) == K_ARRAY && idx == 2 && g_members == 2);
  COVER(star != 0 && spec_kind(star) == K_TRUE && idx == 0);      /* the filter {"*":true} asked for its element 0 (the 91 01 crash before the fix) */
#ifdef CANARY_FWALK_INT
  CHECK(r.variant_.data_ == expect && !(idx == 1 && expect == SLOT(4)), "C11/F5 on a real document: f[index] = element index, never the \"*\" member (true: f itself)");
#else
  CHECK(r.variant_.data_ == expect, "C11/F5 on a real document: f[index] = element index, never the \"*\" member (true: f itself)");
#endif
  _Bool ra = DeserializationOption__Filter__allow(&r);
  CHECK(ra == spec_truthy(expect), "C11/F7 on a real document: kept iff the entry is true-ish");
  CHECK(aa || !ra, "C03/F5 on a real document: !allowArray => !f[index].allow()");
}
#endif /* U_FWALK */

/* ================================================================================================================== */
/* PART 2: the Filter by contract: abstract tokens                                                                     */
/* A filter value is a token (carried in variant_.data_); its four answers are arbitrary but fixed, and constrained by */
/* exactly the clauses proved of the real class in PART 1 (F1 F2 always; F3 F5 F6 where a sub-filter is selected).      */
/* A -DDROP_Fx build leaves one clause out: the obligations named *_needs_Fx require that build to FAIL.                */
/* ================================================================================================================== */
#if defined(U_MPCOLL) || defined(U_MPVAR) || defined(U_MPTOP) || defined(U_JSVAR) || defined(U_JSTOP)
#ifndef U_MPCOLL
struct tok_answers { _Bool allow, arr, obj, val; };
static struct tok_answers g_tok[4];
#endif
typedef struct DeserializationOption__NestingLimit NL;
typedef struct MsgPackDeserializer_StubReader MD;
static unsigned tok(const Filter *f) { return (unsigned)((uintptr_t)f->variant_.data_ & 3); }
static Filter mk_tok(unsigned t) { Filter f; memset(&f, 0, sizeof f); f.variant_.data_ = (struct VariantData *)(uintptr_t)(0x1000 + t); return f; }
_Bool DeserializationOption__Filter__allow(Filter *self) { return g_tok[tok(self)].allow; }
_Bool DeserializationOption__Filter__allowArray(Filter *self) { return g_tok[tok(self)].arr; }
_Bool DeserializationOption__Filter__allowObject(Filter *self) { return g_tok[tok(self)].obj; }
_Bool DeserializationOption__Filter__allowValue(Filter *self) { return g_tok[tok(self)].val; }
static void pick_answer(unsigned t) {
  {
    g_tok[t].allow = in_bool(); g_tok[t].arr = in_bool(); g_tok[t].obj = in_bool(); g_tok[t].val = in_bool();
#ifndef DROP_F1
    __CPROVER_assume(!g_tok[t].val || (g_tok[t].allow && g_tok[t].arr && g_tok[t].obj));      /* F1 */
#endif
#ifndef DROP_F2
    __CPROVER_assume(!g_tok[t].arr || g_tok[t].allow);                                         /* F2 */
    __CPROVER_assume(!g_tok[t].obj || g_tok[t].allow);                                         /* F2 */
#endif
  }
}
static void pick_answers(void) { pick_answer(0); pick_answer(1); pick_answer(2); pick_answer(3); }
#endif

/* ================================================================================================================== */
/* unit mpf_coll: readArray<Filter> / readObject<Filter>, n arbitrary (loop contracts)                                 */
/* ================================================================================================================== */
#ifdef U_MPCOLL
static struct ResourceManager g_rm;
static struct VariantData g_target, g_child_slot[2];
static struct ArrayData g_array; static struct ObjectData g_object;
static struct StringNode g_saved;
static MD *g_self;
static unsigned char g_nest;
static unsigned g_to_calls;
static char g_keybuf[4];
static _Bool g_is_map;

struct ArrayData *VariantData__toArray__void(struct VariantData *self) {
  CHECK(self != 0, "C03: variant is dereferenced (toArray) only when the filter admitted an array");
  CHECK(self == &g_target && g_tok[1].arr, "C11/C06: the variant becomes an array only if the filter admits arrays");
  g_to_calls++;
  return &g_array;
}
struct ObjectData *VariantData__toObject__void(struct VariantData *self) {
  CHECK(self != 0, "C03: variant is dereferenced (toObject) only when the filter admitted an object");
  CHECK(self == &g_target && g_tok[1].obj, "C11/C06: the variant becomes an object only if the filter admits objects");
  g_to_calls++;
  return &g_object;
}
/* filter[0U]: F3 (true is absorbing) and F5 (no "*" for an index: !allowArray => the element filter does not allow) */
Filter DeserializationOption__Filter__op_index_uint(Filter *self, unsigned int *key) {
  CHECK(*key == 0, "C11: an array filter applies its FIRST element to every element");
  CHECK(tok(self) == 1 && g_stage == 0 && g_entries == 0 && g_child_calls == 0, "the element filter is selected from the array's filter, before the first element");
  g_index_calls++;
  g_cur_tok = g_tok[1].val ? 1u : 2u;
  return mk_tok(g_cur_tok);
}
struct VariantData *ArrayData__addElement__ResourceManager_p(struct ArrayData *self, struct ResourceManager *resources) {
  CHECK(self != 0, "C03: addElement is reached only with the array the filter admitted (array != 0)");
  CHECK(self == &g_array && resources == &g_rm && g_stage == 0, "the element is added to this array, once per entry");
  CHECK(g_tok[g_cur_tok].allow, "C11/C06: every store is guarded by an allow() answer");
  if (in_bool()) { g_child_err = E_NOMEM; return (struct VariantData *)0; }
  g_adds++; g_stage = 4;
  g_slot_now = &g_child_slot[in_bool()];
  return (struct VariantData *)g_slot_now;
}
unsigned int MsgPackDeserializer_StubReader__readKey(MD *self) {
  CHECK(self == g_self && g_stage == 0, "the key is read first, for every member, kept or not");
  unsigned e = in_u8();
  __CPROVER_assume(e <= E_TOODEEP);
  if (e) g_child_err = e; else g_stage = 1;
  return e;
}
struct JsonString StringBuffer__str(struct StringBuffer *self) {
  struct JsonString r; memset(&r, 0, sizeof r);
  CHECK(self == &g_self->stringBuffer_ && g_stage == 1, "the key is taken from the string buffer right after readKey");
  r.data_ = g_keybuf; r.size_ = 3;
  return r;
}
/* filter[key]: F3 and F6 (!allowObject => the member filter does not allow) */
Filter DeserializationOption__Filter__op_index_constchar_p(Filter *self, char **key) {
  CHECK(tok(self) == 1 && g_stage == 1, "the member filter is selected from the object's filter, once per member");
  CHECK(*key == g_keybuf, "C11: the member filter is selected with the key just read");
  g_index_calls++;
  g_cur_tok = g_tok[1].val ? 1u : (in_bool() ? 2u : 3u);     /* different keys may select different entries */
  if (g_tok[g_cur_tok].allow) g_allowed++;
  g_stage = 2;
  return mk_tok(g_cur_tok);
}
struct StringNode *StringBuffer__save(struct StringBuffer *self) {
  CHECK(self == &g_self->stringBuffer_ && g_stage == 2, "the key is saved after the member filter was asked");
  CHECK(g_tok[g_cur_tok].allow, "C11/C06: the key is saved only for a kept member");
  g_saves++; g_stage = 3;
  return &g_saved;
}
struct VariantData *ObjectData__addMember_StringNode_p(struct ObjectData *self, struct StringNode *key, struct ResourceManager *resources) {
  CHECK(self != 0, "C03: addMember is reached only with the object the filter admitted (object != 0)");
  CHECK(self == &g_object && key == &g_saved && resources == &g_rm && g_stage == 3, "the member is added to this object under the saved key");
  CHECK(g_tok[g_cur_tok].allow, "C11/C06: every store is guarded by an allow() answer");
  if (in_bool()) { g_child_err = E_NOMEM; g_addmember_failed = 1; return (struct VariantData *)0; }
  g_adds++; g_stage = 4;
  g_slot_now = &g_child_slot[in_bool()];
  return (struct VariantData *)g_slot_now;
}
/* dereferenceString [contract proved: strings/pool_dereference]: C06/C19: the reference save() took on the key is given back
 * when the member cannot be added (otherwise repeated failures make the reference count wrap) */
void ResourceManager__dereferenceString(struct ResourceManager *self, char *s) {
  CHECK(self == &g_rm && g_addmember_failed && s == g_saved.data, "C06/C19: only the key whose addMember failed is dereferenced");
  g_derefs++;
}
/* the child [contract proved: mpf_variant]: requires allow() => variant != 0 */
unsigned int MsgPackDeserializer_StubReader__parseVariant_DeserializationOption__Filter(MD *self, struct VariantData *variant, Filter filter, NL nestingLimit) {
  CHECK(self == g_self, "child: same deserializer");
  g_child_calls++;
  if (g_tok[g_cur_tok].allow)
    CHECK(variant != 0 && variant == g_slot_now && g_stage == 4, "C03/C11: a kept entry is parsed into exactly the slot just added (never null)");
  else
    CHECK(variant == 0 && g_stage == (g_is_map ? 2 : 0), "C11/C06: a discarded entry gets no slot and nothing is stored, but it is still parsed (consumed)");
  CHECK(tok(&filter) == g_cur_tok, "C11: the child receives the sub-filter selected for it");
  CHECK(g_nest != 0 && nestingLimit.value_ == g_nest - 1, "C15: every child receives limit-1, discarded entries included");
  unsigned e = in_u8();
  __CPROVER_assume(e <= E_TOODEEP);
  if (e) g_child_err = e; else { g_stage = 0; g_entries++; }
  return e;
}

static unsigned run_coll(int isMap) {
  static MD d;
  memset(&d, 0, sizeof d);
  d.resources_ = &g_rm; g_self = &d; g_is_map = isMap;
  g_addmember_failed = 0; g_derefs = 0;
  g_entries = 0; g_child_calls = 0; g_adds = 0; g_saves = 0; g_allowed = 0; g_stage = 0; g_child_err = 0; g_slot_now = 0; g_cur_tok = 0;
  g_to_calls = 0; g_index_calls = 0;
  g_keybuf[0] = in_char(); g_keybuf[1] = in_char(); g_keybuf[2] = in_char(); g_keybuf[3] = 0;
  pick_answers();
  /* what PART 1 proves about the sub-filters of filter 1 (tokens 2, 3), when it is not `true` */
#ifndef DROP_F5
  if (!isMap) __CPROVER_assume(g_tok[1].arr || !g_tok[2].allow);                                  /* F5 */
#endif
#ifndef DROP_F6
  if (isMap) __CPROVER_assume(g_tok[1].obj || (!g_tok[2].allow && !g_tok[3].allow));              /* F6 */
#endif
  NL nl; nl.value_ = in_u8(); g_nest = nl.value_;
  unsigned long n = in_u64();
  g_n0 = n;
  /* precondition (what parseVariant's callers establish): allow() => variant != 0 */
  struct VariantData *variant = (g_tok[1].allow || in_bool()) ? &g_target : (struct VariantData *)0;
  Filter f = mk_tok(1);
  return isMap ? MsgPackDeserializer_StubReader__readObject_DeserializationOption__Filter(&d, variant, n, f, nl)
               : MsgPackDeserializer_StubReader__readArray_DeserializationOption__Filter(&d, variant, n, f, nl);
}
static void coll_post(unsigned err, int isMap) {
  CHECK(err <= E_TOODEEP, "C03: one of the six documented codes");
  if (g_nest == 0) {
    CHECK(err == E_TOODEEP, "C15: TooDeep as soon as a container is opened at limit 0 (also inside parts the filter discards)");
    CHECK(g_to_calls == 0 && g_child_calls == 0 && g_adds == 0 && g_saves == 0 && g_index_calls == 0 && g_stage == 0,
          "C15: ... before anything is read, stored or recursed into");
    return;
  }
  CHECK(err == g_child_err, "the result is the first error of a callee (NoMemory when a slot could not be added), else Ok");
  CHECK(err != E_TOODEEP || g_child_err == E_TOODEEP, "C15: at limit > 0 TooDeep only propagates from a child");
  CHECK(g_to_calls == ((isMap ? g_tok[1].obj : g_tok[1].arr) ? 1u : 0u), "C11: the variant becomes a container iff the filter admits that kind (else it stays null)");
  CHECK(err != E_OK || (g_entries == g_n0 && g_child_calls == g_n0 && g_stage == 0),
        "C11: Ok only after all n entries were handed to a child, kept or not (the input is consumed exactly as without a filter)");
  CHECK(g_entries <= g_n0, "never more than n entries");
  CHECK(g_adds <= g_child_calls, "C06: at most one slot per entry: never more stores than the unfiltered run");
  if (isMap) CHECK(g_saves == g_adds || (g_saves == g_adds + 1 && err == E_NOMEM), "C06: one key is saved per member added");
}
void h_mpf_array(void) {
  unsigned err = run_coll(0);
  unsigned et = g_cur_tok;
  COVER(g_nest == 0); COVER(err == E_OK && g_n0 == 0); COVER(err == E_OK && g_n0 == 2 && g_adds == 2); COVER(err == E_OK && g_n0 == 2 && g_adds == 0 && g_tok[1].arr);
  COVER(err == E_OK && g_n0 == 2 && !g_tok[1].arr && !g_tok[1].allow); COVER(err == E_OK && g_tok[1].val && g_n0 == 1); COVER(err == E_NOMEM);
  COVER(err == E_TOODEEP && g_nest != 0); COVER(err == E_INCOMPLETE && g_entries == 1); COVER(g_n0 > 0xFFFFFFFFul && g_nest != 0);
  coll_post(err, 0);
  if (g_nest != 0) {
    CHECK(g_index_calls == 1, "the element filter is selected once");
    CHECK(g_tok[et].allow || (g_adds == 0 && g_saves == 0), "C11/C06: excluded elements store nothing");
#ifdef CANARY_MPF_ARRAY
    CHECK(err != E_OK || g_adds == (g_tok[et].allow && g_n0 != 3 ? g_n0 : 0), "C11: exactly the kept elements are stored, each parsed into its own slot");
#else
    CHECK(err != E_OK || g_adds == (g_tok[et].allow ? g_n0 : 0), "C11: exactly the kept elements are stored, each parsed into its own slot");
#endif
    CHECK(g_saves == 0, "arrays save no key");
  }
}
void h_mpf_object(void) {
  unsigned err = run_coll(1);
  COVER(g_nest == 0); COVER(err == E_OK && g_n0 == 0); COVER(err == E_OK && g_n0 == 2 && g_adds == 2); COVER(err == E_OK && g_n0 == 2 && g_adds == 1);
  COVER(err == E_OK && g_n0 == 2 && g_adds == 0 && g_tok[1].obj); COVER(err == E_OK && g_n0 == 1 && !g_tok[1].obj && g_tok[1].allow); COVER(err == E_OK && g_tok[1].val && g_n0 == 1);
  COVER(err == E_NOMEM); COVER(err == E_TOODEEP && g_nest != 0); COVER(err == E_INVALID && g_entries == 1 && g_stage == 0); COVER(g_n0 > 0xFFFFFFFFul && g_nest != 0);
  coll_post(err, 1);
  if (g_nest != 0) {
    CHECK(g_index_calls == g_child_calls || (g_index_calls == g_child_calls + 1 && err == E_NOMEM), "one member filter per member");
#ifdef CANARY_MPF_OBJECT
    CHECK(err != E_OK || (g_adds == g_allowed && g_n0 != 2), "C11: exactly the members whose entry is true-ish are stored (projection)");
#else
    CHECK(err != E_OK || g_adds == g_allowed, "C11: exactly the members whose entry is true-ish are stored (projection)");
#endif
    CHECK(g_allowed <= g_n0, "kept members are among the n announced");
  }
}
#endif /* U_MPCOLL */

/* ================================================================================================================== */
/* unit mpf_variant: parseVariant<Filter> (and <AllowAllFilter> for the identity lemma)                                */
/* real: parseVariant, readBytes, setBoolean; by contract: the payload routines (recorders), skipBytes, readArray/readObject */
/* RELATIONAL: the routine is run twice on the SAME input script, first with the filter `true` (all answers true), then */
/* with an arbitrary filter; the second run must be the projection of the first.                                        */
/* ================================================================================================================== */
#ifdef U_MPVAR
#define IN_CAP 6
static unsigned char g_in[IN_CAP];
static size_t g_in_len, g_pos;
unsigned long StubReader__readBytes(struct StubReader *self, char *buf, unsigned long n) {
  (void)self;
  CHECK(n <= 4, "C03: the header buffer receives at most 1 + 4 bytes");
  unsigned long avail = g_in_len - g_pos;
  unsigned long k = n <= avail ? n : avail;
  if (0 < k) buf[0] = (char)g_in[g_pos];
  if (1 < k) buf[1] = (char)g_in[g_pos + 1];
  if (2 < k) buf[2] = (char)g_in[g_pos + 2];
  if (3 < k) buf[3] = (char)g_in[g_pos + 3];
  g_pos += k;
  return k;
}
enum { R_NONE, R_ARR, R_MAP, R_STR, R_RAW, R_INT, R_F32, R_F64, R_SKIP };
struct rec {
  int kind; unsigned calls;
  struct VariantData *variant; unsigned long n; size_t pos; unsigned tok; unsigned char nl;
  unsigned char width; _Bool isSigned; unsigned char hsize; unsigned char hdr[5];
  unsigned setint_calls; signed char setint_val;
};
static struct rec g_rec;
static unsigned g_callee_ret;
static struct VariantData *g_variant_in;   /* the variant pointer the routine under test received */
static unsigned g_run_tok;                 /* the filter token of the current run */
static struct ResourceManager g_rm;
static unsigned note_call(int kind, struct VariantData *variant, unsigned long n) {
  g_rec.kind = kind; g_rec.calls++; g_rec.variant = variant; g_rec.n = n; g_rec.pos = g_pos;
  return g_callee_ret;
}
static unsigned store_call(int kind, struct VariantData *variant, unsigned long n) {
  CHECK(variant != 0, "C03: variant is dereferenced only when allowValue was true (never null there)");
  CHECK(variant == g_variant_in, "the value is stored into the variant the caller gave");
  CHECK(g_tok[g_run_tok].val, "C11/C06: a value is read into memory only if the filter admits values; otherwise it is skipped");
  __CPROVER_assume(g_callee_ret != E_TOODEEP && g_callee_ret != E_EMPTY);   /* payload readers: Ok / IncompleteInput / NoMemory / InvalidInput */
  return note_call(kind, variant, n);
}
unsigned int MsgPackDeserializer_StubReader__readInteger(MD *self, struct VariantData *variant, unsigned char width, _Bool isSigned) {
  (void)self; g_rec.width = width; g_rec.isSigned = isSigned; return store_call(R_INT, variant, width);
}
unsigned int MsgPackDeserializer_StubReader__readFloat_float(MD *self, struct VariantData *variant) { (void)self; return store_call(R_F32, variant, 4); }
unsigned int MsgPackDeserializer_StubReader__readDouble_double(MD *self, struct VariantData *variant) { (void)self; return store_call(R_F64, variant, 8); }
unsigned int MsgPackDeserializer_StubReader__readString__VariantData_p_ulong(MD *self, struct VariantData *variant, unsigned long n) { (void)self; return store_call(R_STR, variant, n); }
unsigned int MsgPackDeserializer_StubReader__readRawString(MD *self, struct VariantData *variant, void *header, unsigned char headerSize, unsigned long n) {
  (void)self;
  const unsigned char *h = (const unsigned char *)header;
  CHECK(headerSize >= 1 && headerSize <= 5, "C03: the header is 1..5 bytes");
  g_rec.hsize = headerSize;
  if (headerSize >= 1) g_rec.hdr[0] = h[0];
  if (headerSize >= 2) g_rec.hdr[1] = h[1];
  if (headerSize >= 3) g_rec.hdr[2] = h[2];
  if (headerSize >= 4) g_rec.hdr[3] = h[3];
  if (headerSize >= 5) g_rec.hdr[4] = h[4];
  return store_call(R_RAW, variant, n);
}
_Bool VariantData__setInteger_signedchar(struct VariantData *self, signed char value, struct ResourceManager *resources) {
  CHECK(self != 0, "C03: variant is dereferenced (setInteger) only when allowValue was true");
  CHECK(self == g_variant_in && resources == &g_rm && g_tok[g_run_tok].val, "C11/C06: a fixint is stored only if the filter admits values");
  g_rec.setint_calls++; g_rec.setint_val = value;
  self->type_ = 0x0C; self->content_.asInt32 = value;
  return 1;
}
/* skipBytes [contract proved: mpf_skip]: consumes exactly n bytes or reports IncompleteInput; stores nothing */
unsigned int MsgPackDeserializer_StubReader__skipBytes(MD *self, unsigned long n) {
  (void)self;
  CHECK(!g_tok[g_run_tok].val, "C11: a value is skipped only when the filter does not admit it");
  __CPROVER_assume(g_callee_ret == E_OK || g_callee_ret == E_INCOMPLETE);
  return note_call(R_SKIP, 0, n);
}
static unsigned container_call(int kind, struct VariantData *variant, unsigned long n, unsigned t, unsigned char nl) {
  CHECK(variant == g_variant_in, "the container routine receives the caller's variant unchanged (null if the entry was discarded)");
  CHECK(!g_tok[g_run_tok].allow || variant != 0, "readArray/readObject precondition: allow() => variant != 0");
  CHECK(!(kind == R_ARR ? g_tok[g_run_tok].arr : g_tok[g_run_tok].obj) || variant != 0, "C03: readArray/readObject get a non-null variant whenever the filter admits that kind (F2)");
  g_rec.tok = t; g_rec.nl = nl;
  return note_call(kind, variant, n);
}
unsigned int MsgPackDeserializer_StubReader__readArray_DeserializationOption__Filter(MD *self, struct VariantData *variant, unsigned long n, Filter filter, NL nl) {
  (void)self; return container_call(R_ARR, variant, n, tok(&filter), nl.value_);
}
unsigned int MsgPackDeserializer_StubReader__readObject_DeserializationOption__Filter(MD *self, struct VariantData *variant, unsigned long n, Filter filter, NL nl) {
  (void)self; return container_call(R_MAP, variant, n, tok(&filter), nl.value_);
}
unsigned int MsgPackDeserializer_StubReader__readArray_AllowAllFilter(MD *self, struct VariantData *variant, unsigned long n, struct AllowAllFilter filter, NL nl) {
  (void)self; (void)filter; return container_call(R_ARR, variant, n, g_run_tok, nl.value_);
}
unsigned int MsgPackDeserializer_StubReader__readObject_AllowAllFilter(MD *self, struct VariantData *variant, unsigned long n, struct AllowAllFilter filter, NL nl) {
  (void)self; (void)filter; return container_call(R_MAP, variant, n, g_run_tok, nl.value_);
}

struct outcome { unsigned err; struct rec rec; size_t pos; struct VariantData v; _Bool found; };
static void mpvar_init(void) {
  uint64_t a = in_u64();
  g_in[0] = (unsigned char)(a & 0xFF); g_in[1] = (unsigned char)((a >> 8) & 0xFF); g_in[2] = (unsigned char)((a >> 16) & 0xFF);
  g_in[3] = (unsigned char)((a >> 24) & 0xFF); g_in[4] = (unsigned char)((a >> 32) & 0xFF); g_in[5] = (unsigned char)((a >> 40) & 0xFF);
  g_in_len = in_u8();
  __CPROVER_assume(g_in_len <= IN_CAP);
  g_pos = 0;
  g_callee_ret = in_u8();
  __CPROVER_assume(g_callee_ret <= E_TOODEEP);
  memset(&g_rm, 0, sizeof g_rm);
  pick_answers();
  g_tok[0].allow = g_tok[0].arr = g_tok[0].obj = g_tok[0].val = 1;      /* token 0: the filter `true` (PART 1, F8) */
}
/* one run: which = 0 parseVariant<AllowAllFilter>, else parseVariant<Filter> with token t; passNull: hand over a null variant */
static struct outcome run_variant(int allowAll, unsigned t, _Bool passNull, unsigned char limit) {
  static MD d;
  struct outcome o;
  memset(&d, 0, sizeof d);
  d.resources_ = &g_rm;
  memset(&o, 0, sizeof o);
  memset(&g_rec, 0, sizeof g_rec);
  g_pos = 0; g_run_tok = t;
  g_variant_in = passNull ? (struct VariantData *)0 : &o.v;
  NL nl; nl.value_ = limit;
  if (allowAll) {
    struct AllowAllFilter all; memset(&all, 0, sizeof all);
    o.err = MsgPackDeserializer_StubReader__parseVariant_AllowAllFilter(&d, g_variant_in, all, nl);
  } else {
    o.err = MsgPackDeserializer_StubReader__parseVariant_DeserializationOption__Filter(&d, g_variant_in, mk_tok(t), nl);
  }
  o.rec = g_rec; o.pos = g_pos; o.found = d.foundSomething_;
  return o;
}
#define SAME_V(a, b) ((a).type_ == (b).type_ && (a).next_ == (b).next_ && (a).content_.asCollection.head_ == (b).content_.asCollection.head_ && \
                      (a).content_.asCollection.tail_ == (b).content_.asCollection.tail_)
#define SAME_HDR(a, b) ((a).hsize == (b).hsize && (a).hdr[0] == (b).hdr[0] && ((a).hsize < 2 || (a).hdr[1] == (b).hdr[1]) && ((a).hsize < 3 || (a).hdr[2] == (b).hdr[2]) && \
                        ((a).hsize < 4 || (a).hdr[3] == (b).hdr[3]) && ((a).hsize < 5 || (a).hdr[4] == (b).hdr[4]))

/* C11 projection, C03 null discipline, C15 limit hand-over, C06 subset of stores */
void h_mpf_variant(void) {
  mpvar_init();
  unsigned char limit = in_u8();
  struct outcome A = run_variant(0, 0, 0, limit);                       /* unfiltered: the filter `true` */
  /* precondition of the filtered run (established by readArray/readObject/parse): allow() => variant != 0 */
  _Bool passNull = !g_tok[1].allow && in_bool();
  struct outcome B = run_variant(0, 1, passNull, limit);
  const struct tok_answers f = g_tok[1];
  COVER(A.rec.kind == R_INT && !f.val); COVER(A.rec.kind == R_INT && f.val && A.rec.width == 8 && A.rec.isSigned); COVER(A.rec.kind == R_F32 && !f.val); COVER(A.rec.kind == R_F64 && !f.val);
  COVER(A.rec.kind == R_STR && !f.val && A.rec.n == 31); COVER(A.rec.kind == R_STR && !f.val && A.rec.n > 0xFFFF); COVER(A.rec.kind == R_RAW && !f.val && A.rec.hsize == 5);
  COVER(A.rec.kind == R_RAW && f.val && A.rec.hsize == 1); COVER(A.rec.kind == R_ARR && passNull); COVER(A.rec.kind == R_MAP && !f.obj && f.allow); COVER(A.rec.kind == R_ARR && A.rec.n > 0xFFFF);
  COVER(A.rec.kind == R_NONE && A.err == E_OK && A.v.type_ == 0x06 && !f.val); COVER(A.rec.setint_calls == 1 && !f.val && passNull); COVER(A.err == E_INVALID);
  COVER(A.err == E_INCOMPLETE && A.rec.calls == 0 && g_in_len == 3); COVER(A.err == E_TOODEEP); COVER(g_in_len == 0); COVER(A.rec.kind == R_NONE && A.err == E_OK && A.v.type_ == 0 && A.rec.setint_calls == 0);
  CHECK(A.err <= E_TOODEEP && B.err <= E_TOODEEP, "C03: one of the six documented codes");
  CHECK(A.rec.calls <= 1 && B.rec.calls <= 1, "at most one payload routine per value");
  CHECK(B.pos == A.pos && B.found == A.found, "C11: the filtered run consumes exactly the header bytes the unfiltered run consumes");
  CHECK(B.rec.pos == A.rec.pos, "C11: ... and hands over to the payload routine at the same input position");
  switch (A.rec.kind) {
    case R_NONE:   /* nil, bool, fixint, reserved code, truncated header: decided in place */
      CHECK(B.rec.calls == 0 && B.err == A.err, "C11: values decided in place give the same result under any filter");
      if (f.val) CHECK(SAME_V(B.v, A.v) && B.rec.setint_calls == A.rec.setint_calls && B.rec.setint_val == A.rec.setint_val, "C11: an admitted scalar is stored as without a filter");
      else CHECK(B.v.type_ == 0 && B.rec.setint_calls == 0, "C11/C06: a scalar the filter does not admit stores nothing: the value stays null");
      break;
    case R_INT: case R_F32: case R_F64: case R_STR: case R_RAW:
      if (f.val) {
        CHECK(B.rec.kind == A.rec.kind && B.rec.n == A.rec.n && B.rec.width == A.rec.width && B.rec.isSigned == A.rec.isSigned && B.rec.variant == g_variant_in,
              "C11: an admitted value is read by the same routine with the same size");
        CHECK(A.rec.kind != R_RAW || SAME_HDR(A.rec, B.rec), "C11: bin/ext: same header bytes");
      } else {
#ifdef CANARY_MPF_VARIANT
        CHECK(B.rec.kind == R_SKIP && B.rec.n == A.rec.n + (A.rec.kind == R_RAW && A.rec.n == 2), "C11: a value the filter does not admit is skipped: exactly the bytes the unfiltered run would read are consumed");
#else
        CHECK(B.rec.kind == R_SKIP && B.rec.n == A.rec.n, "C11: a value the filter does not admit is skipped: exactly the bytes the unfiltered run would read are consumed");
#endif
        CHECK(B.v.type_ == 0 && B.rec.setint_calls == 0, "C11/C06: ... and nothing is stored (the kept value becomes null)");
      }
      CHECK(B.err == g_callee_ret && A.err == g_callee_ret, "the payload routine's result is the result");
      break;
    default:       /* R_ARR, R_MAP: containers are always descended into, kept or not (their content must be consumed) */
      CHECK(B.rec.kind == A.rec.kind && B.rec.n == A.rec.n, "C11/C15: an array / map goes to readArray / readObject with the same count, whatever the filter answers");
      CHECK(B.rec.tok == 1 && A.rec.tok == 0, "C11: the container routine receives this value's filter");
      CHECK(B.rec.nl == limit && A.rec.nl == limit, "C15: parseVariant passes the nesting limit unchanged to readArray / readObject");
      CHECK(B.err == g_callee_ret && A.err == g_callee_ret, "the container routine's result is the result");
      break;
  }
  CHECK(B.err != E_TOODEEP || ((B.rec.kind == R_ARR || B.rec.kind == R_MAP) && g_callee_ret == E_TOODEEP), "C15: parseVariant returns TooDeep only when readArray / readObject did");
  CHECK(B.err != E_NOMEM || (B.rec.calls == 1 && g_callee_ret == E_NOMEM && B.rec.kind != R_SKIP), "C06: under a filter NoMemory comes only from a store the filter admitted");
}

/* F8 at routine level: parseVariant<Filter> with the filter `true` behaves exactly as parseVariant<AllowAllFilter> */
void h_mpf_variant_identity(void) {
  mpvar_init();
  unsigned char limit = in_u8();
  struct outcome A = run_variant(1, 0, 0, limit);
  struct outcome B = run_variant(0, 0, 0, limit);
  COVER(A.rec.kind == R_INT); COVER(A.rec.kind == R_STR); COVER(A.rec.kind == R_RAW && A.rec.hsize == 3); COVER(A.rec.kind == R_ARR); COVER(A.rec.kind == R_MAP);
  COVER(A.rec.kind == R_NONE && A.err == E_OK && A.rec.setint_calls == 1); COVER(A.err == E_INCOMPLETE); COVER(A.err == E_INVALID); COVER(A.rec.kind == R_F64);
  CHECK(A.rec.kind != R_SKIP && B.rec.kind != R_SKIP, "nothing is skipped without a filter or with the filter true");
#ifdef CANARY_MPF_IDENT
  CHECK(B.err == A.err && B.pos == A.pos && B.found == A.found && SAME_V(B.v, A.v) && A.rec.kind != R_F32, "C11: filter true is the identity: same result, same bytes consumed, same value (malformed input included)");
#else
  CHECK(B.err == A.err && B.pos == A.pos && B.found == A.found && SAME_V(B.v, A.v), "C11: filter true is the identity: same result, same bytes consumed, same value (malformed input included)");
#endif
  CHECK(B.rec.kind == A.rec.kind && B.rec.calls == A.rec.calls && B.rec.n == A.rec.n && B.rec.pos == A.rec.pos && B.rec.nl == A.rec.nl && B.rec.width == A.rec.width &&
        B.rec.isSigned == A.rec.isSigned && B.rec.setint_calls == A.rec.setint_calls && B.rec.setint_val == A.rec.setint_val && (A.rec.kind != R_RAW || SAME_HDR(A.rec, B.rec)),
        "C11: filter true is the identity: the same payload routine with the same arguments");
}
#endif /* U_MPVAR */

/* ================================================================================================================== */
/* unit mpf_skip: skipBytes(n), n arbitrary (loop contract): the skip path consumes what the read path would consume    */
/* ================================================================================================================== */
#ifdef U_MPSKIP
int StubReader__read(struct StubReader *self) {
  (void)self;
  CHECK(!g_eof, "C03: no byte is requested after the reader reported the end of the input");
  g_reads++;
  int c = (int)in_u16() - 1;
  __CPROVER_assume(c >= -1 && c <= 255);
  if (c < 0) g_eof = 1;
  return c;
}
void h_mpf_skip(void) {
  struct MsgPackDeserializer_StubReader d;
  memset(&d, 0, sizeof d);
  unsigned long n = in_u64();
  g_n0 = n; g_reads = 0; g_eof = 0;
  struct MsgPackDeserializer_StubReader before = d;
  unsigned err = MsgPackDeserializer_StubReader__skipBytes(&d, n);
  COVER(err == E_OK && n == 0); COVER(err == E_OK && n == 3); COVER(err == E_INCOMPLETE && g_reads == 1); COVER(err == E_INCOMPLETE && g_reads == n && n > 1); COVER(err == E_OK && n > 0xFFFFFFFFul);
  CHECK(err == E_OK || err == E_INCOMPLETE, "C03: skipBytes returns Ok or IncompleteInput");
#ifdef CANARY_MPF_SKIP
  CHECK(err != E_OK || (g_reads == n + (n == 5) && !g_eof), "C11: Ok <=> exactly n bytes were consumed (what readBytes(p, n) of the read path consumes)");
#else
  CHECK(err != E_OK || (g_reads == n && !g_eof), "C11: Ok <=> exactly n bytes were consumed (what readBytes(p, n) of the read path consumes)");
#endif
  CHECK(err != E_INCOMPLETE || (g_eof && g_reads >= 1 && g_reads <= n), "C03: IncompleteInput <=> the input ended within the n bytes; nothing is requested beyond");
  CHECK(memcmp(&before, &d, sizeof d) == 0, "C06: skipping stores nothing");
}
#endif /* U_MPSKIP */

/* ================================================================================================================== */
/* unit mpf_top: parse<Filter>: the entry point hands the document's root (never null), the user's filter and the      */
/* user's nesting limit to parseVariant unchanged                                                                       */
/* ================================================================================================================== */
#ifdef U_MPTOP
static struct VariantData g_root;
static MD *g_self;
static unsigned g_pv_calls, g_pv_ret;
static unsigned char g_limit;
static _Bool g_pv_found;
unsigned int MsgPackDeserializer_StubReader__parseVariant_DeserializationOption__Filter(MD *self, struct VariantData *variant, Filter filter, NL nestingLimit) {
  g_pv_calls++;
  CHECK(self == g_self && variant == &g_root, "C03: the top-level value is parsed into the document's root: parseVariant's precondition allow() => variant != 0 holds for every filter");
  CHECK(tok(&filter) == 1, "C11: the user's filter applies to the top-level value");
  CHECK(nestingLimit.value_ == g_limit, "C15: the top-level value is at depth 0: it receives the user's limit L unchanged");
  self->foundSomething_ = g_pv_found;     /* parseVariant sets it as soon as one byte was read */
  return g_pv_ret;
}
void h_mpf_top(void) {
  static MD d;
  memset(&d, 0, sizeof d); memset(&g_root, 0, sizeof g_root);
  g_self = &d; g_pv_calls = 0;
  pick_answers();
  g_pv_ret = in_u8();
  __CPROVER_assume(g_pv_ret <= E_TOODEEP);
  g_pv_found = in_bool();
  __CPROVER_assume(g_pv_found || g_pv_ret == E_INCOMPLETE);   /* nothing read: the first readBytes failed */
  g_limit = in_u8();
  NL nl; nl.value_ = g_limit;
  struct DeserializationError r = MsgPackDeserializer_StubReader__parse_DeserializationOption__Filter(&d, &g_root, mk_tok(1), nl);
  COVER(!g_pv_found); COVER(g_pv_found && r.code_ == E_TOODEEP); COVER(r.code_ == E_OK && g_limit == 0);
  CHECK(g_pv_calls == 1, "exactly one value is parsed per call");
#ifdef CANARY_MPF_TOP
  CHECK(r.code_ == (g_pv_found ? g_pv_ret : E_EMPTY) + (g_pv_ret == E_NOMEM), "the result is parseVariant's, or EmptyInput when the input held nothing");
#else
  CHECK(r.code_ == (g_pv_found ? g_pv_ret : E_EMPTY), "the result is parseVariant's, or EmptyInput when the input held nothing");
#endif
  CHECK(r.code_ != E_TOODEEP || g_pv_ret == E_TOODEEP, "C15: TooDeep only propagates");
}
#endif /* U_MPTOP */

/* ================================================================================================================== */
/* PART 3: JSON, "the filter true is the identity" at routine level: JsonDeserializer::parseVariant<Filter> with the    */
/* filter `true` (all answers true: PART 1, F8) selects the same production with the same arguments as                  */
/* parseVariant<AllowAllFilter>, for every first byte, well-formed or not; same for parse<>.                            */
/* (The container routines are the same template text, parametric in the answers only: argued, see report.)             */
/* ================================================================================================================== */
#if defined(U_JSVAR) || defined(U_JSTOP)
#ifndef SAME_V
#define SAME_V(a, b) ((a).type_ == (b).type_ && (a).next_ == (b).next_ && (a).content_.asCollection.head_ == (b).content_.asCollection.head_ && \
                      (a).content_.asCollection.tail_ == (b).content_.asCollection.tail_)
#endif
typedef struct JsonDeserializer_StubReader JD;
enum { J_NONE, J_PARSE_ARRAY, J_SKIP_ARRAY, J_PARSE_OBJECT, J_SKIP_OBJECT, J_PARSE_STRING, J_SKIP_STRING, J_KEYWORD, J_PARSE_NUM, J_SKIP_NUM, J_PARSE_VARIANT };
struct jrec { unsigned kind, calls, tok; unsigned char nl; _Bool own_target; char kw[6]; };
static struct jrec g_jrec;
static unsigned g_jret;
static struct VariantData *g_jvariant;    /* the variant the routine under test received */
static unsigned jcall(unsigned kind) { g_jrec.kind = kind; g_jrec.calls++; return g_jret; }
#endif
#ifdef U_JSVAR
static char g_first;
static _Bool g_spaces_ok;
unsigned int JsonDeserializer_StubReader__skipSpacesAndComments(JD *self) {
  self->latch_.loaded_ = 1;
  if (g_spaces_ok) { self->latch_.current_ = g_first; self->foundSomething_ = 1; return E_OK; }
  self->latch_.current_ = 0;
  return self->foundSomething_ ? E_INCOMPLETE : E_EMPTY;
}
unsigned int JsonDeserializer_StubReader__parseArray_DeserializationOption__Filter(JD *self, struct ArrayData *a, Filter f, NL nl) {
  (void)self; g_jrec.nl = nl.value_; g_jrec.tok = tok(&f); g_jrec.own_target = (void *)a == (void *)&g_jvariant->content_; return jcall(J_PARSE_ARRAY);
}
unsigned int JsonDeserializer_StubReader__parseArray_AllowAllFilter(JD *self, struct ArrayData *a, struct AllowAllFilter f, NL nl) {
  (void)self; (void)f; g_jrec.nl = nl.value_; g_jrec.own_target = (void *)a == (void *)&g_jvariant->content_; return jcall(J_PARSE_ARRAY);
}
unsigned int JsonDeserializer_StubReader__parseObject_DeserializationOption__Filter(JD *self, struct ObjectData *o, Filter f, NL nl) {
  (void)self; g_jrec.nl = nl.value_; g_jrec.tok = tok(&f); g_jrec.own_target = (void *)o == (void *)&g_jvariant->content_; return jcall(J_PARSE_OBJECT);
}
unsigned int JsonDeserializer_StubReader__parseObject_AllowAllFilter(JD *self, struct ObjectData *o, struct AllowAllFilter f, NL nl) {
  (void)self; (void)f; g_jrec.nl = nl.value_; g_jrec.own_target = (void *)o == (void *)&g_jvariant->content_; return jcall(J_PARSE_OBJECT);
}
unsigned int JsonDeserializer_StubReader__skipArray(JD *self, NL nl) { (void)self; g_jrec.nl = nl.value_; return jcall(J_SKIP_ARRAY); }
unsigned int JsonDeserializer_StubReader__skipObject(JD *self, NL nl) { (void)self; g_jrec.nl = nl.value_; return jcall(J_SKIP_OBJECT); }
unsigned int JsonDeserializer_StubReader__parseStringValue(JD *self, struct VariantData *v) { (void)self; g_jrec.own_target = v == g_jvariant; return jcall(J_PARSE_STRING); }
unsigned int JsonDeserializer_StubReader__skipQuotedString(JD *self) { (void)self; return jcall(J_SKIP_STRING); }
unsigned int JsonDeserializer_StubReader__skipKeyword(JD *self, char *s) {
  (void)self;
  g_jrec.kw[0] = s[0]; g_jrec.kw[1] = s[0] ? s[1] : 0; g_jrec.kw[2] = s[0] && s[1] ? s[2] : 0; g_jrec.kw[3] = s[0] && s[1] && s[2] ? s[3] : 0;
  g_jrec.kw[4] = s[0] && s[1] && s[2] && s[3] ? s[4] : 0; g_jrec.kw[5] = 0;
  return jcall(J_KEYWORD);
}
unsigned int JsonDeserializer_StubReader__parseNumericValue(JD *self, struct VariantData *v) { (void)self; g_jrec.own_target = v == g_jvariant; return jcall(J_PARSE_NUM); }
unsigned int JsonDeserializer_StubReader__skipNumericValue(JD *self) { (void)self; return jcall(J_SKIP_NUM); }

struct joutcome { unsigned err; struct jrec rec; struct VariantData v; _Bool found, loaded; char current; };
static struct joutcome run_jvariant(int allowAll, _Bool found0, unsigned char limit) {
  static JD d;
  struct joutcome o;
  memset(&d, 0, sizeof d); memset(&o, 0, sizeof o); memset(&g_jrec, 0, sizeof g_jrec);
  d.foundSomething_ = found0;
  g_jvariant = &o.v;
  NL nl; nl.value_ = limit;
  if (allowAll) {
    struct AllowAllFilter all; memset(&all, 0, sizeof all);
    o.err = JsonDeserializer_StubReader__parseVariant_AllowAllFilter(&d, &o.v, all, nl);
  } else {
    o.err = JsonDeserializer_StubReader__parseVariant_DeserializationOption__Filter(&d, &o.v, mk_tok(0), nl);
  }
  o.rec = g_jrec; o.found = d.foundSomething_; o.loaded = d.latch_.loaded_; o.current = d.latch_.current_;
  return o;
}
void h_jsonf_variant_identity(void) {
  pick_answers();
  g_tok[0].allow = g_tok[0].arr = g_tok[0].obj = g_tok[0].val = 1;      /* token 0: the filter `true` (PART 1, F8) */
  g_first = in_char(); g_spaces_ok = in_bool();
  __CPROVER_assume(g_first != 0);
  g_jret = in_u8();
  __CPROVER_assume(g_jret <= E_TOODEEP);
  _Bool found0 = in_bool();
  unsigned char limit = in_u8();
  struct joutcome A = run_jvariant(1, found0, limit);
  struct joutcome B = run_jvariant(0, found0, limit);
  COVER(A.rec.kind == J_PARSE_ARRAY); COVER(A.rec.kind == J_PARSE_OBJECT); COVER(A.rec.kind == J_PARSE_STRING); COVER(A.rec.kind == J_KEYWORD && A.v.type_ == 0x06 && A.v.content_.asBoolean);
  COVER(A.rec.kind == J_KEYWORD && A.v.type_ == 0); COVER(A.rec.kind == J_PARSE_NUM && g_first == '}'); COVER(!g_spaces_ok && A.err == E_EMPTY); COVER(A.err == E_TOODEEP);
  CHECK(A.rec.calls <= 1 && B.rec.calls <= 1, "one production per value");
  CHECK(B.rec.kind != J_SKIP_ARRAY && B.rec.kind != J_SKIP_OBJECT && B.rec.kind != J_SKIP_STRING && B.rec.kind != J_SKIP_NUM, "C11: the filter true skips nothing");
#ifdef CANARY_JSONF_VARIANT
  CHECK(B.err == A.err && B.rec.kind == A.rec.kind && B.rec.calls == A.rec.calls && g_first != '{', "C11: filter true is the identity: the same production runs, on malformed input too");
#else
  CHECK(B.err == A.err && B.rec.kind == A.rec.kind && B.rec.calls == A.rec.calls, "C11: filter true is the identity: the same production runs, on malformed input too");
#endif
  CHECK(B.rec.nl == A.rec.nl && B.rec.own_target == A.rec.own_target && B.rec.kw[0] == A.rec.kw[0] && B.rec.kw[1] == A.rec.kw[1] && B.rec.kw[2] == A.rec.kw[2] &&
        B.rec.kw[3] == A.rec.kw[3] && B.rec.kw[4] == A.rec.kw[4], "C11: ... with the same arguments (target, nesting limit, keyword)");
  CHECK((B.rec.kind != J_PARSE_ARRAY && B.rec.kind != J_PARSE_OBJECT) || B.rec.tok == 0, "C11: ... and the container routine receives the filter true again");
  CHECK(SAME_V(B.v, A.v) && B.found == A.found && B.loaded == A.loaded && B.current == A.current, "C11: ... leaving the same variant and the same reader state");
}
#endif /* U_JSVAR */
#ifdef U_JSTOP
static unsigned char g_set_type; static char g_set_current;
static unsigned j_child(JD *self, struct VariantData *variant, unsigned char limit) {
  g_jrec.nl = limit; g_jrec.own_target = variant == g_jvariant;
  variant->type_ = g_set_type; self->latch_.current_ = g_set_current; self->latch_.loaded_ = 1;
  return jcall(J_PARSE_VARIANT);
}
unsigned int JsonDeserializer_StubReader__parseVariant_DeserializationOption__Filter(JD *self, struct VariantData *variant, Filter f, NL nl) { g_jrec.tok = tok(&f); return j_child(self, variant, nl.value_); }
unsigned int JsonDeserializer_StubReader__parseVariant_AllowAllFilter(JD *self, struct VariantData *variant, struct AllowAllFilter f, NL nl) { (void)f; return j_child(self, variant, nl.value_); }
void h_jsonf_top_identity(void) {
  static JD d;
  struct VariantData va, vb;
  pick_answers();
  g_jret = in_u8();
  __CPROVER_assume(g_jret <= E_TOODEEP);
  g_set_type = in_u8(); g_set_current = in_char();
  unsigned char limit = in_u8();
  NL nl; nl.value_ = limit;
  struct AllowAllFilter all; memset(&all, 0, sizeof all);
  memset(&d, 0, sizeof d); memset(&va, 0, sizeof va); memset(&g_jrec, 0, sizeof g_jrec); g_jvariant = &va;
  struct DeserializationError ra = JsonDeserializer_StubReader__parse_AllowAllFilter(&d, &va, all, nl);
  struct jrec reca = g_jrec;
  memset(&d, 0, sizeof d); memset(&vb, 0, sizeof vb); memset(&g_jrec, 0, sizeof g_jrec); g_jvariant = &vb;
  struct DeserializationError rb = JsonDeserializer_StubReader__parse_DeserializationOption__Filter(&d, &vb, mk_tok(0), nl);
  COVER(ra.code_ == E_OK); COVER(ra.code_ == E_INVALID && g_jret == E_OK); COVER(ra.code_ == E_TOODEEP);
#ifdef CANARY_JSONF_TOP
  CHECK(rb.code_ == ra.code_ && ra.code_ != E_NOMEM, "C11: filter true is the identity: parse gives the same result");
#else
  CHECK(rb.code_ == ra.code_, "C11: filter true is the identity: parse gives the same result");
#endif
  CHECK(g_jrec.calls == 1 && reca.calls == 1 && g_jrec.nl == limit && reca.nl == limit && g_jrec.own_target && reca.own_target && g_jrec.tok == 0,
        "C11/C15: one parseVariant call on the document root with the user's filter and nesting limit, in both instantiations");
}
#endif /* U_JSTOP */
