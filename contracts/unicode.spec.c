/* C17 (and the character-level steps of C01/C02/C07): UTF-16 code units -> code point -> UTF-8, \uXXXX hex, escape tables.
 * Oracles are written from the property text / RFC 3629 / RFC 8259, not from the code. */
#include "verif.h"
#ifdef VERIF_NATIVE
#include "lowered_types.h"
#else
#include "lowered.c"
#endif

/* ---- stubs: string builder sink and reader source ------------------------------------------------------------ */
static unsigned char g_out[8];
static unsigned g_out_len;
void LogBuilder__append(struct LogBuilder *self, char c) {
  (void)self;
  if (g_out_len < 8) g_out[g_out_len] = (unsigned char)c;
  g_out_len++;
}

static int g_script[6];
static unsigned g_reads;
int StubReader__read(struct StubReader *self) {
  (void)self;
  __CPROVER_assert(g_reads < 6, "reader: no more than 6 reads in these units");
  return g_script[g_reads++];
}

/* ---- independent spec functions ------------------------------------------------------------------------------ */
static unsigned spec_utf8(uint32_t cp, unsigned char out[4]) {
  if (cp < 0x80) { out[0] = (unsigned char)cp; return 1; }
  if (cp < 0x800) { out[0] = (unsigned char)(0xC0 | (cp >> 6)); out[1] = (unsigned char)(0x80 | (cp & 0x3F)); return 2; }
  if (cp < 0x10000) {
    out[0] = (unsigned char)(0xE0 | (cp >> 12)); out[1] = (unsigned char)(0x80 | ((cp >> 6) & 0x3F));
    out[2] = (unsigned char)(0x80 | (cp & 0x3F)); return 3;
  }
  out[0] = (unsigned char)(0xF0 | (cp >> 18)); out[1] = (unsigned char)(0x80 | ((cp >> 12) & 0x3F));
  out[2] = (unsigned char)(0x80 | ((cp >> 6) & 0x3F)); out[3] = (unsigned char)(0x80 | (cp & 0x3F)); return 4;
}
static int spec_hexval(int c) {
  if (c >= '0' && c <= '9') return c - '0';
  if (c >= 'a' && c <= 'f') return c - 'a' + 10;
  if (c >= 'A' && c <= 'F') return c - 'A' + 10;
  return -1;
}
/* RFC 8259 section 7 two-character escapes, plus the two the parser additionally accepts (\/ is RFC, \' is dialect) */
static char spec_unescape(char c) {
  switch (c) {
    case '"': return '"'; case '\\': return '\\'; case '/': return '/'; case '\'': return '\'';
    case 'b': return '\b'; case 'f': return '\f'; case 'n': return '\n'; case 'r': return '\r'; case 't': return '\t';
    default: return 0;
  }
}
/* C17: serializeJson never changes bytes other than the quote, the backslash, \b \f \n \r \t (and NUL, handled by writeChar) */
static char spec_escape(char c) {
  switch (c) {
    case '"': return '"'; case '\\': return '\\';
    case '\b': return 'b'; case '\f': return 'f'; case '\n': return 'n'; case '\r': return 'r'; case '\t': return 't';
    default: return 0;
  }
}

/* ---- harnesses ------------------------------------------------------------------------------------------------- */
void h_utf16_append(void) {
  struct Utf16__Codepoint cp;
  Utf16__Codepoint__ctor__void(&cp);
  uint16_t a = in_u16();
  _Bool r1 = Utf16__Codepoint__append(&cp, a);
  if (a < 0xD800 || a >= 0xE000) {
    COVER(1);
    CHECK(r1, "BMP scalar completes a code point");
#ifdef CANARY_UTF16
    CHECK(Utf16__Codepoint__value(&cp) == (uint32_t)a + 1, "BMP scalar decodes to itself");
#else
    CHECK(Utf16__Codepoint__value(&cp) == a, "BMP scalar decodes to itself");
#endif
  } else if (a < 0xDC00) {
    CHECK(!r1, "high surrogate alone does not complete a code point");
    uint16_t b = in_u16();
    _Bool r2 = Utf16__Codepoint__append(&cp, b);
    if (b >= 0xDC00 && b < 0xE000) {
      COVER(1);
      CHECK(r2, "low surrogate after high completes");
      CHECK(Utf16__Codepoint__value(&cp) == 0x10000u + (((uint32_t)a - 0xD800u) << 10) + ((uint32_t)b - 0xDC00u),
            "surrogate pair decodes to U+10000 + (hi-D800)*400 + (lo-DC00)");
    }
  } else {
    COVER(1);
    /* unpaired low surrogate: only definedness is required (the constructor initialised highSurrogate_) */
    (void)Utf16__Codepoint__value(&cp);
  }
}

void h_utf8_encode(void) {
  uint32_t cp = in_u32();
  __CPROVER_assume(cp < 0x110000);
  struct LogBuilder sb;
  memset(&sb, 0, sizeof sb);
  g_out_len = 0;
  Utf8__encodeCodepoint_LogBuilder(cp, &sb);
  unsigned char want[4];
  unsigned n = spec_utf8(cp, want);
  COVER(n == 1); COVER(n == 2); COVER(n == 3); COVER(n == 4);
#ifdef CANARY_UTF8
  CHECK(g_out_len == n + (cp == 0x800), "UTF-8 length");
#else
  CHECK(g_out_len == n, "UTF-8 length");
#endif
  CHECK(g_out[0] == want[0], "UTF-8 byte 0");
  CHECK(n < 2 || g_out[1] == want[1], "UTF-8 byte 1");
  CHECK(n < 3 || g_out[2] == want[2], "UTF-8 byte 2");
  CHECK(n < 4 || g_out[3] == want[3], "UTF-8 byte 3");
}

static int script_byte(void) {
  int c = (int)in_u16() - 1; /* -1 .. 65534 */
  __CPROVER_assume(c >= -1 && c <= 255);
  return c;
}
static void script4(void) {
  g_script[0] = script_byte(); g_script[1] = script_byte(); g_script[2] = script_byte();
  g_script[3] = script_byte(); g_script[4] = script_byte(); g_script[5] = script_byte();
  g_reads = 0;
}

static void hex4_run(unsigned *err_out, uint16_t *result_out, unsigned *want_err_out, uint16_t *want_out, unsigned *consumed_out, struct JsonDeserializer_StubReader *d) {
  memset(d, 0, sizeof *d);
  d->latch_.loaded_ = 0;
  script4();
  *result_out = in_u16();
  *err_out = JsonDeserializer_StubReader__parseHex4(d, result_out);
  /* expected: scan the first 4 delivered bytes; end of input (<=0) -> IncompleteInput(2); non-hex -> InvalidInput(3) */
  unsigned want_err = 0;
  uint16_t want = 0;
  unsigned consumed = 0;
#define STEP(i) if (want_err == 0) { int c = g_script[i]; int v = spec_hexval(c); \
    if (c <= 0) want_err = 2; else if (v < 0) want_err = 3; else { want = (uint16_t)((want << 4) | v); consumed++; } }
  STEP(0) STEP(1) STEP(2) STEP(3)
  *want_err_out = want_err; *want_out = want; *consumed_out = consumed;
}
/* C17/C01: four hex digits in any case decode to their value; exactly the four digits are consumed */
void h_hex4_valid(void) {
  struct JsonDeserializer_StubReader d;
  unsigned err, want_err, consumed; uint16_t result, want;
  hex4_run(&err, &result, &want_err, &want, &consumed, &d);
  COVER(want_err == 0);
  if (want_err == 0) {
    CHECK(err == 0, "four hex digits (either case) are accepted");
#ifdef CANARY_HEX4
    CHECK(result == (uint16_t)(want ^ (want == 0xABCD)), "parseHex4 value == the 16-bit number the digits spell");
#else
    CHECK(result == want, "parseHex4 value == the 16-bit number the digits spell");
#endif
    CHECK(g_reads == 4 && !d.latch_.loaded_, "parseHex4 consumes exactly the four digits");
  }
}
/* C10/C03: anything else is classified: end of input -> IncompleteInput, a non-hex byte -> InvalidInput */
void h_hex4_classify(void) {
  struct JsonDeserializer_StubReader d;
  unsigned err, want_err, consumed; uint16_t result, want;
  hex4_run(&err, &result, &want_err, &want, &consumed, &d);
  COVER(want_err == 2); COVER(want_err == 3);
#ifdef CANARY_HEX4C
  CHECK(err == want_err || (want_err == 2 && consumed == 3), "parseHex4 classification: Ok iff four hex digits, IncompleteInput at the end of input, InvalidInput at a non-hex byte");
  CHECK(want_err != 2 || consumed != 3, "canary");
#else
  CHECK(err == want_err, "parseHex4 classification: Ok iff four hex digits, IncompleteInput at the end of input, InvalidInput at a non-hex byte");
#endif
  CHECK(g_reads <= consumed + 1, "parseHex4 reads at most one byte past the accepted digits");
}

/* composition: 😀-style pair -> UTF-8, for every pair (C17 "every high/low surrogate pair decodes to the UTF-8
 * encoding of that code point") through the real Codepoint::append + real encodeCodepoint */
void h_pair_utf8(void) {
  struct Utf16__Codepoint cp;
  Utf16__Codepoint__ctor__void(&cp);
  uint16_t hi = in_u16(), lo = in_u16();
  __CPROVER_assume(hi >= 0xD800 && hi < 0xDC00 && lo >= 0xDC00 && lo < 0xE000);
  (void)Utf16__Codepoint__append(&cp, hi);
  _Bool done = Utf16__Codepoint__append(&cp, lo);
  struct LogBuilder sb;
  memset(&sb, 0, sizeof sb);
  g_out_len = 0;
  Utf8__encodeCodepoint_LogBuilder(Utf16__Codepoint__value(&cp), &sb);
  uint32_t scalar = 0x10000u + (((uint32_t)hi & 0x3FF) << 10) + ((uint32_t)lo & 0x3FF);
  unsigned char want[4];
  unsigned n = spec_utf8(scalar, want);
  CHECK(done && n == 4 && g_out_len == 4, "pair gives a 4-byte sequence");
#ifdef CANARY_PAIR
  CHECK(g_out[0] == want[0] && g_out[1] == want[1] && g_out[2] == want[2] && g_out[3] == (want[3] ^ (hi == 0xD83D)), "pair bytes");
#else
  CHECK(g_out[0] == want[0] && g_out[1] == want[1] && g_out[2] == want[2] && g_out[3] == want[3], "pair bytes");
#endif
}

void h_escape(void) {
  char c = in_char();
  char e = EscapeSequence__escapeChar(c);
  char u = EscapeSequence__unescapeChar(c);
  COVER(e != 0); COVER(u != 0); COVER(e == 0 && u == 0);
#ifdef CANARY_ESC
  CHECK(e == spec_escape(c) || c == '/', "escapeChar == RFC 8259 table (only quote, backslash, b f n r t)");
  CHECK(u == spec_unescape(c) && c != 'r', "unescapeChar == RFC 8259 table plus single quote");
#else
  CHECK(e == spec_escape(c), "escapeChar == RFC 8259 table (only quote, backslash, b f n r t)");
  CHECK(u == spec_unescape(c), "unescapeChar == RFC 8259 table plus single quote");
#endif
  /* inverse (L-C07a): whatever the serializer escapes, the parser maps back */
  if (e != 0) CHECK(EscapeSequence__unescapeChar(e) == c, "unescape(escape(c)) == c");
}
