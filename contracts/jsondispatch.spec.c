/* parseVariant<Filter> / skipVariant / parse<Filter> / parseStringValue of JsonDeserializer<StubReader>: the dispatch on the first
 * non-space byte.  Every callee is a stub that records the call; contracts of the callees are proved in jsonscan / jsonnest.
 * Serves C10 (which production a byte selects), C01 (true/false/null stores), C15 (same-level dispatch passes the limit
 * unchanged), C11 (kind admitted by the filter => parse, else skip; nothing stored when not admitted), C03 (SAFE, codes),
 * C16 (parse() reads nothing after the value). */
#include "json_ghost.h"
static unsigned g_called;      /* which callee ran: see enum below */
static unsigned g_ncalls;
static unsigned char g_limit_seen;
static void *g_filter_seen;
static void *g_target_seen;
static char g_kw[6];
static unsigned g_callee_err;
#ifdef VERIF_NATIVE
#include "lowered_types.h"
#else
#include "lowered.c"
#endif
typedef struct JsonDeserializer_StubReader JD;
typedef struct DeserializationOption__Filter Filter;
typedef struct DeserializationOption__NestingLimit NL;
enum { C_NONE, C_PARSE_ARRAY, C_SKIP_ARRAY, C_PARSE_OBJECT, C_SKIP_OBJECT, C_PARSE_STRING, C_SKIP_STRING, C_KEYWORD, C_PARSE_NUM, C_SKIP_NUM, C_PARSE_VARIANT };

int StubReader__read(struct StubReader *self) {
  (void)self;
  CHECK(!g_ended, "C03: no byte is read after the end of the input was delivered");
  int c = (int)in_u16() - 1;
  __CPROVER_assume(c >= -1 && c <= 255);
  g_reads++; g_last = c > 0 ? c : 0; g_have_last = 1;
  if (c <= 0) g_ended = 1;
  return c;
}
static void havoc_position(JD *d, _Bool must_be_safe) {
  d->latch_.loaded_ = in_bool();
  d->latch_.current_ = in_char();
  g_ended = in_bool();
  g_have_last = 1;
  g_last = d->latch_.loaded_ ? (int)(unsigned char)d->latch_.current_ : (g_ended ? 0 : 'x');
  __CPROVER_assume(!(d->latch_.loaded_ && d->latch_.current_ == 0) || g_ended);
  if (must_be_safe) __CPROVER_assume(SAFE(d));
}
static unsigned callee(JD *self, unsigned which) {
  CHECK(SAFE(self), "callee precondition: SAFE");
  CHECK(g_ncalls == 0, "exactly one production is selected");
  g_ncalls++; g_called = which;
  unsigned e = in_u8();
  __CPROVER_assume(e <= TooDeep);
  havoc_position(self, e == Ok);
  g_callee_err = e;
  return e;
}
static _Bool g_spaces_ok;
static char g_first;
unsigned int JsonDeserializer_StubReader__skipSpacesAndComments(JD *self) {
  CHECK(SAFE(self), "skipSpacesAndComments precondition: SAFE");
  self->latch_.loaded_ = 1;
  g_have_last = 1;
  if (g_spaces_ok) { self->latch_.current_ = g_first; g_ended = 0; g_last = (unsigned char)g_first; self->foundSomething_ = 1; return Ok; }
  self->latch_.current_ = 0; g_ended = 1; g_last = 0;
  return self->foundSomething_ ? IncompleteInput : EmptyInput;
}
unsigned int JsonDeserializer_StubReader__parseArray_DeserializationOption__Filter(JD *self, struct ArrayData *a, Filter f, NL nl) {
  g_limit_seen = nl.value_; g_filter_seen = f.variant_.data_; g_target_seen = a;
  CHECK(self->latch_.loaded_ && self->latch_.current_ == '[', "parseArray precondition: '[' is latched");
  return callee(self, C_PARSE_ARRAY);
}
unsigned int JsonDeserializer_StubReader__skipArray(JD *self, NL nl) { g_limit_seen = nl.value_; CHECK(self->latch_.loaded_ && self->latch_.current_ == '[', "skipArray precondition: '[' is latched"); return callee(self, C_SKIP_ARRAY); }
unsigned int JsonDeserializer_StubReader__parseObject_DeserializationOption__Filter(JD *self, struct ObjectData *o, Filter f, NL nl) {
  g_limit_seen = nl.value_; g_filter_seen = f.variant_.data_; g_target_seen = o;
  CHECK(self->latch_.loaded_ && self->latch_.current_ == '{', "parseObject precondition: '{' is latched");
  return callee(self, C_PARSE_OBJECT);
}
unsigned int JsonDeserializer_StubReader__skipObject(JD *self, NL nl) { g_limit_seen = nl.value_; CHECK(self->latch_.loaded_ && self->latch_.current_ == '{', "skipObject precondition: '{' is latched"); return callee(self, C_SKIP_OBJECT); }
unsigned int JsonDeserializer_StubReader__parseStringValue(JD *self, struct VariantData *v) { g_target_seen = v; return callee(self, C_PARSE_STRING); }
unsigned int JsonDeserializer_StubReader__skipQuotedString(JD *self) { return callee(self, C_SKIP_STRING); }
unsigned int JsonDeserializer_StubReader__skipKeyword(JD *self, char *s) {
  g_kw[0] = s[0]; g_kw[1] = s[0] ? s[1] : 0; g_kw[2] = s[0] && s[1] ? s[2] : 0; g_kw[3] = s[0] && s[1] && s[2] ? s[3] : 0;
  g_kw[4] = s[0] && s[1] && s[2] && s[3] ? s[4] : 0; g_kw[5] = 0;
  return callee(self, C_KEYWORD);
}
unsigned int JsonDeserializer_StubReader__parseNumericValue(JD *self, struct VariantData *v) { g_target_seen = v; return callee(self, C_PARSE_NUM); }
unsigned int JsonDeserializer_StubReader__skipNumericValue(JD *self) { return callee(self, C_SKIP_NUM); }

static _Bool g_allowArray, g_allowObject, g_allowValue;
_Bool DeserializationOption__Filter__allowArray(Filter *self) { (void)self; return g_allowArray; }
_Bool DeserializationOption__Filter__allowObject(Filter *self) { (void)self; return g_allowObject; }
_Bool DeserializationOption__Filter__allowValue(Filter *self) { (void)self; return g_allowValue; }

static JD *mk(void) {
  JD *d = malloc(sizeof *d);
  __CPROVER_assume(d != 0);
  memset(d, 0, sizeof *d);
  d->latch_.loaded_ = in_bool();
  d->latch_.current_ = in_char();
  d->foundSomething_ = in_bool();
  g_ended = d->latch_.loaded_ && d->latch_.current_ == 0;
  g_reads = 0; g_have_last = d->latch_.loaded_; g_last = (unsigned char)d->latch_.current_; g_bad_consumed = 0; g_log[0] = 0; g_allowed_class = 0;
  g_called = C_NONE; g_ncalls = 0; g_limit_seen = 0; g_filter_seen = 0; g_target_seen = 0; g_callee_err = 0;
  g_spaces_ok = in_bool(); g_first = in_char();
  __CPROVER_assume(g_first != 0 && !IS_WS(g_first));
  g_allowArray = in_bool(); g_allowObject = in_bool(); g_allowValue = in_bool();
  return d;
}
#define BOOLEAN_TYPE 0x06 /* VariantType::Boolean */
/* Configurations nan / inf (ARDUINOJSON_ENABLE_NAN / ARDUINOJSON_ENABLE_INFINITY): C10 admits NaN resp. Infinity "only when
 * the corresponding option is enabled"; a value that starts with the first letter of one of the option's words (or with a sign)
 * must therefore reach the number production, which decides (jsonscan parse/skipNumericValue [nan, inf], pnloop option_*),
 * while t / f / n keep selecting the keywords true / false / null in every configuration (so the lower-case word `nan` is
 * not a document-level spelling: it is dispatched to the keyword null and refused there).  The dispatch oracle `want` is the
 * same text in every configuration; what is option-specific are the cover goals and the canary below. */
#if defined(CFG_nan)
#define OPTION_WORD_COVERS(num) COVER(g_called == (num) && c == 'N'); COVER(g_called == (num) && c == '-'); COVER(g_called == C_KEYWORD && c == 'n')
#define CANARY_DISPATCH(num, generic) (!(g_called == (num) && c == 'N'))
#elif defined(CFG_inf)
#define OPTION_WORD_COVERS(num) COVER(g_called == (num) && c == 'I'); COVER(g_called == (num) && c == 'i'); COVER(g_called == (num) && c == '-'); COVER(g_called == (num) && c == '+')
#define CANARY_DISPATCH(num, generic) (!(g_called == (num) && c == 'I'))
#else
#define OPTION_WORD_COVERS(num) ((void)0)
#define CANARY_DISPATCH(num, generic) (!(generic))
#endif

void h_parseVariant(void) {
  JD *d = mk();
  struct VariantData v;
  memset(&v, 0, sizeof v);
  unsigned char limit = in_u8();
  NL nl; nl.value_ = limit;
  Filter f; memset(&f, 0, sizeof f); f.variant_.data_ = (void *)(uintptr_t)0x1001;
  unsigned err = JsonDeserializer_StubReader__parseVariant_DeserializationOption__Filter(d, &v, f, nl);
  char c = g_first;
  COVER(g_called == C_PARSE_ARRAY); COVER(g_called == C_SKIP_ARRAY); COVER(g_called == C_PARSE_OBJECT); COVER(g_called == C_SKIP_OBJECT);
  COVER(g_called == C_PARSE_STRING); COVER(g_called == C_SKIP_STRING); COVER(g_called == C_KEYWORD && c == 't'); COVER(g_called == C_PARSE_NUM); COVER(g_called == C_SKIP_NUM);
  COVER(!g_spaces_ok);
  OPTION_WORD_COVERS(C_PARSE_NUM);
  CHECK(err <= TooDeep, "C03: one of the six documented codes");
  if (!g_spaces_ok) {
    CHECK(g_ncalls == 0 && err != Ok && err != TooDeep && v.type_ == 0, "whitespace-only / ended input: nothing is parsed or stored, Empty/Incomplete is returned");
    return;
  }
  CHECK(g_ncalls == 1 && err == g_callee_err, "exactly one production runs and its result is returned unchanged");
  CHECK(err != Ok || SAFE(d), "C03: Ok => SAFE");
  unsigned want = c == '[' ? (g_allowArray ? C_PARSE_ARRAY : C_SKIP_ARRAY)
                : c == '{' ? (g_allowObject ? C_PARSE_OBJECT : C_SKIP_OBJECT)
                : (c == '"' || c == '\'') ? (g_allowValue ? C_PARSE_STRING : C_SKIP_STRING)
                : (c == 't' || c == 'f' || c == 'n') ? C_KEYWORD
                : (g_allowValue ? C_PARSE_NUM : C_SKIP_NUM);
  CHECK(g_called == want, "C10/C11: the first byte selects the production; the filter decides parse vs skip");
  if (g_called == C_PARSE_ARRAY || g_called == C_PARSE_OBJECT || g_called == C_SKIP_ARRAY || g_called == C_SKIP_OBJECT)
    CHECK(g_limit_seen == limit, "C15: same-level dispatch passes the nesting limit unchanged");
  if (g_called == C_PARSE_ARRAY || g_called == C_PARSE_OBJECT) {
    CHECK(g_filter_seen == f.variant_.data_, "C11: the container routine receives this value's filter");
    CHECK(g_target_seen == (void *)&v.content_, "C01: the container is built inside this variant");
    CHECK(v.type_ == (g_called == C_PARSE_ARRAY ? 0x40 : 0x20), "C01: the variant becomes an empty array / object before its content is parsed");
  }
  if (g_called == C_PARSE_STRING || g_called == C_PARSE_NUM) CHECK(g_target_seen == &v, "C01: scalar stored into this variant");
  if (g_called == C_KEYWORD) {
    const char *kw = c == 't' ? "true" : c == 'f' ? "false" : "null";
    CHECK(strcmp(g_kw, kw) == 0, "C10: t/f/n select exactly the keywords true/false/null");
    if (c == 'n' || !g_allowValue) CHECK(v.type_ == 0, "C01/C11: null (or a value the filter does not admit) leaves the variant null");
    else CHECK(v.type_ == BOOLEAN_TYPE && v.content_.asBoolean == (c == 't'), "C01: true/false store the right boolean");
  }
  if (g_called == C_SKIP_ARRAY || g_called == C_SKIP_OBJECT || g_called == C_SKIP_STRING || g_called == C_SKIP_NUM)
    CHECK(v.type_ == 0, "C11: a kept value whose kind the filter does not admit stays null");
#ifdef CANARY_PARSEVARIANT
  CHECK(CANARY_DISPATCH(C_PARSE_NUM, g_called == C_KEYWORD && c == 'f' && g_allowValue), "canary: deliberately false for a reachable case");
#endif
}

void h_skipVariant(void) {
  JD *d = mk();
  unsigned char limit = in_u8();
  NL nl; nl.value_ = limit;
  unsigned err = JsonDeserializer_StubReader__skipVariant(d, nl);
  char c = g_first;
  COVER(g_called == C_SKIP_ARRAY); COVER(g_called == C_SKIP_OBJECT); COVER(g_called == C_SKIP_STRING); COVER(g_called == C_KEYWORD); COVER(g_called == C_SKIP_NUM); COVER(!g_spaces_ok);
  OPTION_WORD_COVERS(C_SKIP_NUM);
  CHECK(err <= TooDeep, "C03: one of the six documented codes");
  if (!g_spaces_ok) { CHECK(g_ncalls == 0 && err != Ok, "ended input: nothing runs"); return; }
  CHECK(g_ncalls == 1 && err == g_callee_err, "exactly one production runs and its result is returned unchanged");
  CHECK(err != Ok || SAFE(d), "C03: Ok => SAFE");
  unsigned want = c == '[' ? C_SKIP_ARRAY : c == '{' ? C_SKIP_OBJECT : (c == '"' || c == '\'') ? C_SKIP_STRING : (c == 't' || c == 'f' || c == 'n') ? C_KEYWORD : C_SKIP_NUM;
  CHECK(g_called == want, "C10/C15: discarded parts go through the skip productions (which enforce the same nesting rule)");
  if (g_called == C_SKIP_ARRAY || g_called == C_SKIP_OBJECT) CHECK(g_limit_seen == limit, "C15: same-level dispatch passes the nesting limit unchanged");
#ifdef CANARY_SKIPVARIANT
  CHECK(CANARY_DISPATCH(C_SKIP_NUM, g_called == C_SKIP_OBJECT), "canary: deliberately false for a reachable case");
#endif
}
