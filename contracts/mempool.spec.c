/* Layer 1 of C04/C05/C06/C19: the slot store. Contracts are CBMC code contracts enforced with goto-instrument --dfcc
 * (frame = __CPROVER_assigns). Harnesses build the pre-state from in_*() values so that counterexamples replay natively. */
#include "verif.h"
#ifdef VERIF_NATIVE
#include "lowered_types.h"
#else
#include "lowered.c"
#endif
#include "alloc.h"

typedef struct MemoryPool_ResourceManager__SlotData Pool;
typedef union ResourceManager__SlotData SlotData;
typedef struct Slot_ResourceManager__SlotData Slot;

#define NULLSLOT ((unsigned)NULL_SLOT)
#include "config.h"
#define MAXCAP (CFG_NULL_SLOT < 256 ? (unsigned)CFG_NULL_SLOT : 256u) /* SlotCount is as wide as a slot id */

#ifndef VERIF_NATIVE
/* MemoryPool::allocSlot: hands out slots_[usage_] and nothing else changes; full or unallocated pool -> null slot */
Slot contract_pool_allocSlot(Pool *self)
__CPROVER_requires(self->usage_ <= self->capacity_ && (self->slots_ == 0) == (self->capacity_ == 0))
__CPROVER_assigns(self->usage_)
__CPROVER_ensures(__CPROVER_old(self->usage_) < self->capacity_ ==>
                  (__CPROVER_return_value.ptr_ == self->slots_ + __CPROVER_old(self->usage_) &&
                   __CPROVER_return_value.id_ == __CPROVER_old(self->usage_) &&
                   self->usage_ == __CPROVER_old(self->usage_) + 1))
__CPROVER_ensures(__CPROVER_old(self->usage_) >= self->capacity_ ==>
                  (__CPROVER_return_value.ptr_ == 0 && __CPROVER_return_value.id_ == NULLSLOT &&
                   self->usage_ == __CPROVER_old(self->usage_)))
;
#endif

static Pool *mk_pool(void) {
  Pool *p = malloc(sizeof *p);
  __CPROVER_assume(p != 0);
  unsigned cap = in_u32(), use = in_u32();
  __CPROVER_assume(cap <= MAXCAP && use <= cap);
  p->capacity_ = (__typeof__(p->capacity_))cap;
  p->usage_ = (__typeof__(p->usage_))use;
  p->slots_ = cap ? malloc(cap * sizeof(SlotData)) : 0;
  __CPROVER_assume(cap == 0 || p->slots_ != 0);
  return p;
}

void h_pool_allocSlot(void) {
  Pool *p = mk_pool();
  Pool before = *p;
  Slot s = MemoryPool_ResourceManager__SlotData__allocSlot(p);
  COVER(s.ptr_ != 0); COVER(s.ptr_ == 0 && before.capacity_ != 0); COVER(before.capacity_ == 0);
#ifdef CANARY_POOL_ALLOC
  CHECK(s.ptr_ == 0 || s.id_ + 1 < p->capacity_ + (p->capacity_ != 7), "allocSlot: id below capacity");
#else
  CHECK(s.ptr_ == 0 || s.id_ < p->capacity_, "allocSlot: id below capacity");
#endif
  CHECK((s.ptr_ == 0) == (s.id_ == NULLSLOT), "allocSlot: null slot iff NULL_SLOT id");
  CHECK(s.ptr_ == 0 || MemoryPool_ResourceManager__SlotData__getSlot(p, s.id_) == s.ptr_, "allocSlot: getSlot(id) is the slot");
  CHECK(p->capacity_ == before.capacity_ && p->slots_ == before.slots_, "allocSlot: pool block unchanged");
}

/* ---- MemoryPool::create / destroy / shrinkToFit / getSlot (contracts used as stubs by poollist_addpool / poollist_life) ---- */
#define SLOTSZ sizeof(SlotData)
void h_pool_create(void) {
  Pool *p = malloc(sizeof *p);
  __CPROVER_assume(p != 0);
  unsigned cap = in_u32();
  __CPROVER_assume(cap >= 1 && cap <= MAXCAP);
  struct Allocator *a = verif_allocator(0);
  g_expected_allocator = a;
  g_alloc_calls = g_dealloc_calls = g_realloc_calls = 0; g_live_blocks = 0;
  MemoryPool_ResourceManager__SlotData__create(p, (__typeof__(p->capacity_))cap, a);
  COVER(p->slots_ != 0); COVER(p->slots_ == 0);
  CHECK(g_alloc_calls == 1 && g_dealloc_calls == 0 && g_realloc_calls == 0, "C06: create asks the document's allocator for exactly one block");
#ifdef CANARY_POOL_CREATE
  CHECK(p->slots_ == 0 || p->capacity_ + (cap == 5) == cap, "create: capacity is the requested one");
#else
  CHECK(p->slots_ == 0 || p->capacity_ == cap, "create: capacity is the requested one");
#endif
  CHECK(p->slots_ != 0 || p->capacity_ == 0, "C05: a failed allocation leaves an EMPTY pool (capacity 0), never a pool without block");
  CHECK(p->usage_ == 0, "create: the pool starts empty");
  if (p->slots_) { p->slots_[cap - 1].variant.type_ = 0; } /* the block really has cap slots (bounds-checked write to the last one) */
}
void h_pool_destroy(void) {
  Pool *p = mk_pool();
  struct Allocator *a = verif_allocator(0);
  g_expected_allocator = a;
  g_alloc_calls = g_dealloc_calls = g_realloc_calls = 0;
  _Bool had = p->slots_ != 0;
  MemoryPool_ResourceManager__SlotData__destroy(p, a);
  COVER(had); COVER(!had);
#ifdef CANARY_POOL_DESTROY
  CHECK(g_dealloc_calls == 1, "C06: destroy releases the block exactly once (and only if there is one)");
#else
  CHECK(g_dealloc_calls == (had ? 1u : 0u) && g_alloc_calls == 0 && g_realloc_calls == 0, "C06: destroy releases the block exactly once (and only if there is one)");
#endif
  CHECK(p->slots_ == 0 && p->capacity_ == 0 && p->usage_ == 0, "destroy leaves the empty pool (no dangling block pointer)");
}
void h_pool_shrink(void) {
  Pool *p = mk_pool();
  __CPROVER_assume(p->slots_ != 0);
  ledger_add(p->slots_, (size_t)p->capacity_ * SLOTSZ);
  struct Allocator *a = verif_allocator(0);
  g_expected_allocator = a;
  g_alloc_calls = g_dealloc_calls = g_realloc_calls = 0;
  unsigned use = p->usage_, cap = p->capacity_;
  MemoryPool_ResourceManager__SlotData__shrinkToFit(p, a);
  COVER(use < cap && use > 0); COVER(use == 0);
  CHECK(g_realloc_calls == 1 && g_alloc_calls == 0 && g_dealloc_calls == 0, "shrinkToFit only reallocates");
#ifdef CANARY_POOL_SHRINK
  CHECK(p->capacity_ == cap, "after shrinkToFit the capacity is the usage (or unchanged if the block could not move)");
#else
  CHECK(p->usage_ == use && (p->capacity_ == use || p->capacity_ == cap), "after shrinkToFit the capacity is the usage (or unchanged if the block could not move)");
#endif
  CHECK(p->usage_ <= p->capacity_ || p->slots_ == 0, "usage never exceeds capacity");
}
void h_pool_getSlot(void) {
  Pool *p = mk_pool();
  unsigned id = in_u32();
  __CPROVER_assume(id < p->usage_);
  SlotData *s = MemoryPool_ResourceManager__SlotData__getSlot(p, (__typeof__(p->usage_))id);
  COVER(id > 0);
#ifdef CANARY_POOL_GETSLOT
  CHECK(s == p->slots_ + id + (id == 2), "getSlot(id) is slots_ + id");
#else
  CHECK(s == p->slots_ + id, "getSlot(id) is slots_ + id");
#endif
}
