/* Layer 1 of C04/C05/C06/C19: the slot store. Contracts are CBMC code contracts enforced with goto-instrument --dfcc
 * (frame = __CPROVER_assigns). Harnesses build the pre-state from in_*() values so that counterexamples replay natively. */
#include "verif.h"
#ifdef VERIF_NATIVE
#include "lowered_types.h"
#else
#include "lowered.c"
#endif
#include "alloc.h"

typedef struct MemoryPool_ResourceManager__SlotData Pool;
typedef union ResourceManager__SlotData SlotData;
typedef struct Slot_ResourceManager__SlotData Slot;

#define NULLSLOT ((unsigned)NULL_SLOT)
#define MAXCAP 256u

#ifndef VERIF_NATIVE
/* MemoryPool::allocSlot: hands out slots_[usage_] and nothing else changes; full or unallocated pool -> null slot */
Slot contract_pool_allocSlot(Pool *self)
__CPROVER_requires(self->usage_ <= self->capacity_ && (self->slots_ == 0) == (self->capacity_ == 0))
__CPROVER_assigns(self->usage_)
__CPROVER_ensures(__CPROVER_old(self->usage_) < self->capacity_ ==>
                  (__CPROVER_return_value.ptr_ == self->slots_ + __CPROVER_old(self->usage_) &&
                   __CPROVER_return_value.id_ == __CPROVER_old(self->usage_) &&
                   self->usage_ == __CPROVER_old(self->usage_) + 1))
__CPROVER_ensures(__CPROVER_old(self->usage_) >= self->capacity_ ==>
                  (__CPROVER_return_value.ptr_ == 0 && __CPROVER_return_value.id_ == NULLSLOT &&
                   self->usage_ == __CPROVER_old(self->usage_)))
;
#endif

static Pool *mk_pool(void) {
  Pool *p = malloc(sizeof *p);
  __CPROVER_assume(p != 0);
  unsigned cap = in_u32(), use = in_u32();
  __CPROVER_assume(cap <= MAXCAP && use <= cap);
  p->capacity_ = (__typeof__(p->capacity_))cap;
  p->usage_ = (__typeof__(p->usage_))use;
  p->slots_ = cap ? malloc(cap * sizeof(SlotData)) : 0;
  __CPROVER_assume(cap == 0 || p->slots_ != 0);
  return p;
}

void h_pool_allocSlot(void) {
  Pool *p = mk_pool();
  Pool before = *p;
  Slot s = MemoryPool_ResourceManager__SlotData__allocSlot(p);
  COVER(s.ptr_ != 0); COVER(s.ptr_ == 0 && before.capacity_ != 0); COVER(before.capacity_ == 0);
#ifdef CANARY_POOL_ALLOC
  CHECK(s.ptr_ == 0 || s.id_ + 1 < p->capacity_ + (p->capacity_ != 7), "allocSlot: id below capacity");
#else
  CHECK(s.ptr_ == 0 || s.id_ < p->capacity_, "allocSlot: id below capacity");
#endif
  CHECK((s.ptr_ == 0) == (s.id_ == NULLSLOT), "allocSlot: null slot iff NULL_SLOT id");
  CHECK(s.ptr_ == 0 || MemoryPool_ResourceManager__SlotData__getSlot(p, s.id_) == s.ptr_, "allocSlot: getSlot(id) is the slot");
  CHECK(p->capacity_ == before.capacity_ && p->slots_ == before.slots_, "allocSlot: pool block unchanged");
}
