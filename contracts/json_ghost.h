/* Ghost reader for the JSON deserializer units (DESIGN 4.1), zero-terminated mode:
 *   - StubReader::read() delivers an ARBITRARY byte (-1..255) at every call: one proof covers every input of every length;
 *   - a byte <= 0 is the end of the input; a read after that is the over-read C03 forbids (asserted in the stub);
 *   - "consumed" = delivered and then dropped from the latch; a new read() can only happen once the previous byte was consumed.
 * State invariant of every deserializer state the harnesses start from and must re-establish on Ok:
 *   SAFE(d):  end delivered  ==>  the terminating 0 is still in the latch (nobody consumed it). */
#ifndef JSON_GHOST_H
#define JSON_GHOST_H
#include "verif.h"

static _Bool g_ended;            /* a byte <= 0 has been delivered */
static unsigned g_reads;         /* read() calls so far */
static int g_last;               /* last byte delivered (0 for the end of input) */
static _Bool g_have_last;        /* g_last is meaningful (a byte was delivered or was in the latch when the harness started) */
static _Bool g_bad_consumed;     /* some byte outside the set the current routine may consume was consumed (see ALLOWED) */
static unsigned char g_log[8];   /* first 8 delivered bytes (as chars; end is logged as 0) */
static unsigned char g_allowed_class; /* which bytes the routine under test may consume: 0 any, 1 JSON whitespace, 2 number chars, 3 identifier chars */

static _Bool ghost_allowed(int c) {
  if (g_allowed_class == 0) return 1;
  if (g_allowed_class == 1) return c == ' ' || c == '\t' || c == '\r' || c == '\n';
  if (g_allowed_class == 2) return (c >= '0' && c <= '9') || c == '+' || c == '-' || c == '.' || c == 'e' || c == 'E';
  return (c >= '0' && c <= '9') || (c >= 'A' && c <= 'Z') || (c >= '_' && c <= 'z');
}

#define SAFE(d) (!g_ended || ((d)->latch_.loaded_ && (d)->latch_.current_ == 0))
#define LATCHED(d) ((d)->latch_.loaded_)
#define JSON_GHOST_ASSIGNS g_ended, g_reads, g_last, g_have_last, g_bad_consumed, __CPROVER_object_whole(g_log)
/* the latch, when loaded, holds the last delivered byte */
#define LATCH_IS_LAST(d) (!(d)->latch_.loaded_ || (g_have_last && g_last == (int)(unsigned char)(d)->latch_.current_))
/* ghost consistency: latch holds the last delivered byte; a delivered 0 means the end flag is set */
#define GHOST_INV(d) (LATCH_IS_LAST(d) && (!g_have_last || g_last != 0 || g_ended))
#define IS_WS(c) ((c) == ' ' || (c) == '\t' || (c) == '\r' || (c) == '\n')
#define IS_NUM(c) (((c) >= '0' && (c) <= '9') || (c) == '+' || (c) == '-' || (c) == '.' || (c) == 'e' || (c) == 'E')
#define IS_IDENT(c) (((c) >= '0' && (c) <= '9') || ((c) >= 'A' && (c) <= 'Z') || ((c) >= '_' && (c) <= 'z'))

enum { Ok = 0, EmptyInput = 1, IncompleteInput = 2, InvalidInput = 3, NoMemory = 4, TooDeep = 5 };
#endif
