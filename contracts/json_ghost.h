/* Ghost reader for the JSON deserializer units (DESIGN 4.1), zero-terminated mode:
 *   - StubReader::read() delivers an ARBITRARY byte (-1..255) at every call: one proof covers every input of every length;
 *   - a byte <= 0 is the end of the input; a read after that is the over-read C03 forbids (asserted in the stub);
 *   - "consumed" = delivered and then dropped from the latch; a new read() can only happen once the previous byte was consumed.
 * State invariant of every deserializer state the harnesses start from and must re-establish on Ok:
 *   SAFE(d):  end delivered  ==>  the terminating 0 is still in the latch (nobody consumed it). */
#ifndef JSON_GHOST_H
#define JSON_GHOST_H
#include "verif.h"

static _Bool g_ended;            /* a byte <= 0 has been delivered */
static unsigned g_reads;         /* read() calls so far */
static int g_last;               /* last byte delivered (0 for the end of input) */
static _Bool g_have_last;        /* g_last is meaningful (a byte was delivered or was in the latch when the harness started) */
static _Bool g_bad_consumed;     /* some byte outside the set the current routine may consume was consumed (see ALLOWED) */
static unsigned char g_log[8];   /* first 8 delivered bytes (as chars; end is logged as 0) */
static unsigned char g_allowed_class; /* which bytes the routine under test may consume: 0 any, 1 JSON whitespace, 2 number chars, 3 identifier chars */

/* Number bytes (C10 "lenient number spellings", C16 "at most one further byte when it is a number"), per configuration.
 *   IS_NUM(c)          bytes of the default number alphabet: digits, signs, '.', exponent marker.
 *   NUM_MAY_CONSUME(c) what a number scanner may consume.  Default: IS_NUM.  With ARDUINOJSON_ENABLE_NAN / _INFINITY the
 *                      dialect gains the spellings NaN / Infinity (C10: "NaN and Infinity only when the corresponding option
 *                      is enabled"), which are made of ASCII letters: letters may then be consumed too, never anything else
 *                      (no structural byte, quote, whitespace, NUL, byte >= 0x80).  Whether the letters consumed spell one
 *                      of the option's words is parseNumber's verdict (unit pnloop, obligations option_*).
 *   NUM_MUST_CONSUME(c) where a number scanner must NOT stop: the default alphabet plus the letters of the spellings the
 *                      enabled option adds ("NaN", "nan"; "Infinity", "infinity", "inf"), so that each of them reaches
 *                      parseNumber in one piece.
 * configs.json passes -DCFG_<config>=1: nan = ENABLE_NAN, inf = ENABLE_INFINITY. */
#define IS_NUM(c) (((c) >= '0' && (c) <= '9') || (c) == '+' || (c) == '-' || (c) == '.' || (c) == 'e' || (c) == 'E')
#define IS_ASCII_LETTER(c) (((c) >= 'A' && (c) <= 'Z') || ((c) >= 'a' && (c) <= 'z'))
#if defined(CFG_nan) || defined(CFG_inf)
#define NUM_OPTION_WORDS 1
#ifdef CANARY_NUM_LETTERS /* canary of the nan / inf obligations: the letter 'a' is declared not consumable */
#define NUM_MAY_CONSUME(c) (IS_NUM(c) || (IS_ASCII_LETTER(c) && (c) != 'a'))
#else
#define NUM_MAY_CONSUME(c) (IS_NUM(c) || IS_ASCII_LETTER(c))
#endif
#ifdef CFG_nan
#define NUM_MUST_CONSUME(c) (IS_NUM(c) || (c) == 'N' || (c) == 'a' || (c) == 'n')
#else
#define NUM_MUST_CONSUME(c) (IS_NUM(c) || (c) == 'I' || (c) == 'i' || (c) == 'n' || (c) == 'f' || (c) == 't' || (c) == 'y')
#endif
#else
#define NUM_OPTION_WORDS 0
#define NUM_MAY_CONSUME(c) IS_NUM(c)
#define NUM_MUST_CONSUME(c) IS_NUM(c)
#endif

static _Bool ghost_allowed(int c) {
  if (g_allowed_class == 0) return 1;
  if (g_allowed_class == 1) return c == ' ' || c == '\t' || c == '\r' || c == '\n';
  if (g_allowed_class == 2) return NUM_MAY_CONSUME(c);
  return (c >= '0' && c <= '9') || (c >= 'A' && c <= 'Z') || (c >= '_' && c <= 'z');
}

#define SAFE(d) (!g_ended || ((d)->latch_.loaded_ && (d)->latch_.current_ == 0))
#define LATCHED(d) ((d)->latch_.loaded_)
#define JSON_GHOST_ASSIGNS g_ended, g_reads, g_last, g_have_last, g_bad_consumed, __CPROVER_object_whole(g_log)
/* the latch, when loaded, holds the last delivered byte */
#define LATCH_IS_LAST(d) (!(d)->latch_.loaded_ || (g_have_last && g_last == (int)(unsigned char)(d)->latch_.current_))
/* ghost consistency: latch holds the last delivered byte; a delivered 0 means the end flag is set */
#define GHOST_INV(d) (LATCH_IS_LAST(d) && (!g_have_last || g_last != 0 || g_ended))
#define IS_WS(c) ((c) == ' ' || (c) == '\t' || (c) == '\r' || (c) == '\n')
#define IS_IDENT(c) (((c) >= '0' && (c) <= '9') || ((c) >= 'A' && (c) <= 'Z') || ((c) >= '_' && (c) <= 'z'))

/* ---- comments (ARDUINOJSON_ENABLE_COMMENTS=1, config cmt): ghost automaton over the CONSUMED bytes -----------------------
 * C10 admits comments "only when the corresponding option is enabled": between tokens, `/` `*` ... `*` `/` ending at the FIRST
 * star-slash, and `/` `/` ... ending at the newline.  The automaton is written from that grammar, not from the code:
 *   BETWEEN     outside comments: whitespace stays, '/' opens (SLASH), any other byte is a token byte: it must NOT be consumed
 *   SLASH       one '/' consumed: '*' -> BLOCK, '/' -> LINE, any other byte must not be consumed
 *   BLOCK       inside a block comment, the last byte is not a star that could close it ('*' -> BLOCK_STAR)
 *   BLOCK_STAR  inside a block comment behind a star: '/' closes (BETWEEN), '*' stays, anything else -> BLOCK
 *               (the star of the opening slash-star does not count: slash-star-slash is not closed)
 *   LINE        inside a line comment: the newline closes (BETWEEN)
 *   BAD         a byte was consumed that the grammar does not allow to consume (absorbing)
 * A byte is consumed when the next read() happens or when the latch is empty at the end; g_cm is the state behind all bytes
 * delivered BEFORE the last one (g_last), CM_EFF(d) the state behind every consumed byte (g_last counts once the latch has
 * dropped it).  The loop contracts of jsonscan_cmt.loops.json carry CM_EFF. */
enum { CM_BETWEEN = 0, CM_SLASH = 1, CM_BLOCK = 2, CM_BLOCK_STAR = 3, CM_LINE = 4, CM_BAD = 5 };
static unsigned char g_cm;   /* automaton state */
static unsigned g_cm_done;   /* comments completed so far */
static _Bool g_cm_run;       /* BLOCK_STAR was reached from BLOCK_STAR: a run of at least two stars */
static _Bool g_cm_2star;     /* a block comment was closed by the slash behind a run of at least two stars */
#define CM_STEP(st, b) ((unsigned char)( \
    (st) == CM_BETWEEN ? (((b) == ' ' || (b) == '\t' || (b) == '\r' || (b) == '\n') ? CM_BETWEEN : (b) == '/' ? CM_SLASH : CM_BAD) \
  : (st) == CM_SLASH ? ((b) == '*' ? CM_BLOCK : (b) == '/' ? CM_LINE : CM_BAD) \
  : (st) == CM_BLOCK ? ((b) == '*' ? CM_BLOCK_STAR : CM_BLOCK) \
  : (st) == CM_BLOCK_STAR ? ((b) == '/' ? CM_BETWEEN : (b) == '*' ? CM_BLOCK_STAR : CM_BLOCK) \
  : (st) == CM_LINE ? ((b) == '\n' ? CM_BETWEEN : CM_LINE) \
  : CM_BAD))
#define CM_EFF(d) (((d)->latch_.loaded_ || !g_have_last) ? g_cm : CM_STEP(g_cm, g_last))
#define CM_GHOST_ASSIGNS g_cm, g_cm_done, g_cm_run, g_cm_2star
static void cm_consume(int b) {
  if (g_cm == CM_BLOCK_STAR && b == '/') { g_cm_done++; if (g_cm_run) g_cm_2star = 1; }
  if (g_cm == CM_LINE && b == '\n') g_cm_done++;
  g_cm_run = g_cm == CM_BLOCK_STAR && b == '*';
  g_cm = CM_STEP(g_cm, b);
}

/* ---- quoted strings on the skip path (C11: a value the filter does not admit is skipped, consuming exactly the value;
 * C10/C16: the string ends at the FIRST unescaped quote of the kind that opened it) ----------------------------------------
 * Ghost automaton over the consumed bytes, written from the string grammar of RFC 8259 section 7 (plus the single quote):
 *   OPEN  nothing consumed yet: the opening quote (g_sq_q) -> IN
 *   IN    inside the string: the opening kind of quote closes (DONE), a backslash escapes the NEXT byte (ESC), others stay
 *   ESC   behind a backslash: whatever comes is part of the string, also a quote or a second backslash (-> IN); so an
 *         escaped backslash does not escape the quote behind it
 *   DONE  closed; consuming anything more is BAD (absorbing)
 * Same one-byte lag as the comment automaton: g_sq is the state behind the bytes delivered before g_last. Only fed while
 * g_sq_on (set by the harness of skipQuotedString). */
enum { SQ_OPEN = 0, SQ_IN = 1, SQ_ESC = 2, SQ_DONE = 3, SQ_BAD = 4 };
static _Bool g_sq_on;
static unsigned char g_sq;
static int g_sq_q;             /* the quote that opened the string */
static _Bool g_sq_escbs;       /* the byte consumed last was an escaped backslash */
static _Bool g_sq_end_escbs;   /* the string was closed right behind an escaped backslash ("...\\\\" in C spelling: the text ends in two backslashes) */
static _Bool g_sq_escq;        /* an escaped quote of the opening kind was consumed inside the string */
#define SQ_STEP(st, b) ((unsigned char)( \
    (st) == SQ_OPEN ? ((b) == g_sq_q ? SQ_IN : SQ_BAD) \
  : (st) == SQ_IN ? ((b) == g_sq_q ? SQ_DONE : (b) == '\\' ? SQ_ESC : SQ_IN) \
  : (st) == SQ_ESC ? SQ_IN \
  : SQ_BAD))
#define SQ_EFF(d) (((d)->latch_.loaded_ || !g_have_last) ? g_sq : SQ_STEP(g_sq, g_last))
#define SQ_GHOST_ASSIGNS g_sq, g_sq_escbs, g_sq_end_escbs, g_sq_escq
static void sq_consume(int b) {
  if (g_sq == SQ_IN && b == g_sq_q && g_sq_escbs) g_sq_end_escbs = 1;
  if (g_sq == SQ_ESC && b == g_sq_q) g_sq_escq = 1;
  g_sq_escbs = g_sq == SQ_ESC && b == '\\';
  g_sq = SQ_STEP(g_sq, b);
}

enum { Ok = 0, EmptyInput = 1, IncompleteInput = 2, InvalidInput = 3, NoMemory = 4, TooDeep = 5 };
#endif
