/* shared by poollist.spec.c and poolgrow.spec.c: WF_LIST predicates and the symbolic pool-list state builder */
#ifndef POOLLIST_COMMON_H
#define POOLLIST_COMMON_H


typedef struct MemoryPool_ResourceManager__SlotData Pool;
typedef union ResourceManager__SlotData SlotData;
typedef struct Slot_ResourceManager__SlotData Slot;
typedef struct MemoryPoolList_ResourceManager__SlotData PoolList;

/* the number of pools of CAP slots needed to host NULL_SLOT slots (ids 0..NULL_SLOT-1): derived from the property's limit
 * 'at most 2^(8*slot-id-size)-1 slots', independently of the code's own constant (compared in list_id_space) */
#define MAXPOOLS ((CFG_NULL_SLOT + CFG_CAP - 1) / CFG_CAP)

/* capacity a pool at table index i may have: the pool that makes the id space reach NULL_SLOT is one slot smaller */
static uint64_t pool_cap_limit(uint64_t index) { uint64_t left = CFG_NULL_SLOT - index * CFG_CAP; return index >= MAXPOOLS ? 0 : (left < CFG_CAP ? left : CFG_CAP); }

static _Bool wf_pool_at(const Pool *p, uint64_t index) {
  return p->usage_ <= p->capacity_ && ((p->slots_ == 0) == (p->capacity_ == 0)) && p->capacity_ <= pool_cap_limit(index);
}
static _Bool wf_list_fields(const PoolList *l) {
  return l->count_ <= l->capacity_ && l->count_ <= MAXPOOLS &&
         ((l->pools_ == l->preallocatedPools_) ? l->capacity_ == CFG_INITIAL : l->capacity_ > CFG_INITIAL) &&
         (l->capacity_ <= MAXPOOLS || l->capacity_ == CFG_INITIAL); /* heap tables: any size in (INITIAL, maxPools] (shrinkToFit) */
}

/* ---- state builder: a list with an arbitrary table (inline or heap) in which ONE focus entry `fi` is materialised with a
 * real slot block; all other entries hold arbitrary bytes (ghost-index style: obligations talk about one arbitrary entry). */
/* heap table capacity used by the harnesses: min(maxPools, 64) (a constant). Configurations whose maxPools <= 64 are therefore covered for EVERY pool index. */
/* materialised slot block of the focus pool: CAP slots when CAP <= 16, otherwise a 16-slot window (pool occupancy is then
 * bounded by 16 in that configuration: such configurations are listed under "bounded_configs" and reported as class B) */
#define POOL_WINDOW (CFG_CAP <= 16 ? CFG_CAP : 16)
/* (any capacity in (INITIAL, maxPools] is a legal heap table since growth clamps to maxPools and shrinkToFit() trims) */
#define HEAP_CAP (MAXPOOLS <= 64 ? MAXPOOLS : 64)
enum { heap_cap_k = HEAP_CAP };

static PoolList *mk_list(unsigned *fi_out, _Bool need_focus) {
  PoolList *l = malloc(sizeof *l);
  __CPROVER_assume(l != 0);
  unsigned count = in_u32();
  /* the table kind is a compile-time scenario (SCEN_HEAP=0/1) so that every block size is a constant for the solver */
#ifndef SCEN_HEAP
#define SCEN_HEAP 0
#endif
  const _Bool heap = SCEN_HEAP;
  /* heap tables may have ANY capacity in (INITIAL, K]: doubling, clamping and shrinkToFit() all produce such values;
   * the block itself always has K entries so that its size is a constant for the solver */
  unsigned cap = SCEN_HEAP ? in_u32() : (unsigned)CFG_INITIAL;
  if (SCEN_HEAP) __CPROVER_assume(cap > CFG_INITIAL && cap <= heap_cap_k);
  if (!heap) {
    l->pools_ = l->preallocatedPools_;
    for (unsigned i = 0; i < CFG_INITIAL; i++) { l->preallocatedPools_[i].slots_ = 0; l->preallocatedPools_[i].capacity_ = 0; l->preallocatedPools_[i].usage_ = 0; }
  } else {
    __CPROVER_assume(heap_cap_k > CFG_INITIAL);
    l->pools_ = malloc((size_t)heap_cap_k * sizeof(Pool));
    __CPROVER_assume(l->pools_ != 0);
  }
  __CPROVER_assume(count <= cap && count <= MAXPOOLS);
  l->count_ = (__typeof__(l->count_))count;
  l->capacity_ = (__typeof__(l->capacity_))cap;
  l->freeList_ = (__typeof__(l->freeList_))CFG_NULL_SLOT;
  unsigned fi = in_u32();
  if (need_focus) {
    __CPROVER_assume(fi < count);
    unsigned pcap = in_u32(), use = in_u32();
    __CPROVER_assume(pcap >= 1 && pcap <= pool_cap_limit(fi) && pcap <= POOL_WINDOW && use <= pcap);
    Pool *p = &l->pools_[fi];
    p->capacity_ = (__typeof__(p->capacity_))pcap;
    p->usage_ = (__typeof__(p->usage_))use;
    p->slots_ = malloc((size_t)POOL_WINDOW * sizeof(SlotData)); /* constant-size block; capacity_ is what the code may use */
    __CPROVER_assume(p->slots_ != 0);
  }
  *fi_out = fi;
  return l;
}



#endif
