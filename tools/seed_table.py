#!/usr/bin/env python3
"""prints the markdown table of DESIGN.md section 14 from seeded/*/meta.json"""
import json, glob, os
def c(x, n):
    x = (x or '').replace('|', '\\|').replace('\n', ' ')
    return x if len(x) <= n else x[:n - 1] + '…'
rows = []
for f in sorted(glob.glob(os.path.join(os.path.dirname(__file__), '..', 'seeded', '*', 'meta.json'))):
    m = json.load(open(f))
    rows.append('| %s | %s | %s | %s | %s |' % (m['seed'], c(m.get('change') or m.get('needs_to_manifest'), 120), c(m.get('needs_to_manifest'), 90),
                                               c(m.get('detected_by'), 130), c(m.get('first_run'), 120)))
print('| seed | change | needs | caught by | first run |\n|---|---|---|---|---|')
print('\n'.join(rows))
