#!/usr/bin/env python3
"""writes MANIFEST.json from props_meta.json (claimed properties) and not_applicable.json"""
import json, os
ROOT = os.path.dirname(os.path.dirname(os.path.abspath(__file__)))
meta = json.load(open(os.path.join(ROOT, 'props_meta.json')))
na = json.load(open(os.path.join(ROOT, 'not_applicable.json')))
props = [json.loads(l)['id'] for l in open(os.path.join(ROOT, 'properties.jsonl'))]
checks = []
for p in props:
    m = meta.get(p)
    if not m or not m.get('claimed'):
        continue
    checks.append({
        'property_id': p,
        'quick_cmd': './check %s --tier quick' % p,
        'thorough_cmd': './check %s --tier thorough' % p,
        'evidence_file': 'evidence/%s.json' % p,
        'replay_cmd_template': './check %s --replay {path}' % p,
        'engine': 'cbmc-contracts',
        'level_claimed': {'category': m.get('level', 'proof'), 'text': m.get('level_text', m.get('explanation', '')), 'design_ref': 'DESIGN.md section 6 (%s)' % p},
        'level_note': m.get('level_note', 'trusted: clang AST, ajlower lowering rules (covalidated natively), CBMC 6.11, libc models; see trusted_base.json and the evidence file'),
        'technique': m.get('technique', 'contract-based deductive verification: CBMC function/loop contracts and full-domain harness postconditions on the C lowering of the real functions'),
    })
claimed = set(c['property_id'] for c in checks)
nal = []
for p in props:
    if p in claimed:
        continue
    nal.append({'property_id': p, 'reason': na.get(p, 'no obligation built yet for this property in this round (see DESIGN.md section 6 for the planned contracts)')})
man = {
    'version': 1,
    'setup_cmd': 'python3 tools/selftest.py',
    'hooks': {'guard': 'BBLANCHON_ARDUINOJSON_VERIF', 'enable': 'no source hooks: contracts, ghost state and stubs live in /verif; the C lowering reads private members from the clang AST',
              'baseline_off_cmd': 'cmake --build /repo/_build -j8 && ctest --test-dir /repo/_build -j8 --timeout 900',
              'source_commits': [], 'add_only': True},
    'engines': [{'name': 'cbmc-contracts', 'path': 'tools/driver.py', 'serves_properties': sorted(claimed),
                 'kind_free_text': 'clang-14 AST -> C lowering (tools/ajlower.py) of the real functions; CBMC 6.11 contracts/loop contracts + full-domain harnesses; native replay of counterexamples against /repo/src'}],
    'checks': checks,
    'not_applicable': nal,
    'notes': 'exit 0 = all obligations discharged (KNOWN-FINDING lines for findings listed in known_findings.json); exit 1 = VIOLATION line; exit 2 = UNDECIDED (tool limit, never a violation).',
}
json.dump(man, open(os.path.join(ROOT, 'MANIFEST.json'), 'w'), indent=1)
print('claimed:', sorted(claimed))
