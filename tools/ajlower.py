#!/usr/bin/env python3
"""ajlower -- mechanical lowering of instantiated C++ functions (clang-14 JSON AST) to C for CBMC.

The verified text is produced from /repo/src on every run: clang instantiates and type-checks, this file prints
the instantiated function bodies as C.  Everything that is dropped or rewritten is listed in DESIGN.md section 3.
Any AST node kind / construct outside the supported list raises LowerError ("must-fire" rule): the caller turns
that into exit status 2 (undecided), never into a pass and never into a violation.
"""
import json
import re
import sys
import os
sys.path.insert(0, os.path.dirname(os.path.abspath(__file__)))
import cxxtypes as T
from cxxtypes import sanitize, type_str


class LowerError(Exception):
    pass


FUNC_KINDS = ('FunctionDecl', 'CXXMethodDecl', 'CXXConstructorDecl', 'CXXDestructorDecl', 'CXXConversionDecl')
RECORD_KINDS = ('CXXRecordDecl', 'ClassTemplateSpecializationDecl')
STD_PASSTHRU = {'int8_t', 'uint8_t', 'int16_t', 'uint16_t', 'int32_t', 'uint32_t', 'int64_t', 'uint64_t', 'size_t',
                'ptrdiff_t', 'uintptr_t', 'intptr_t', 'ssize_t'}
LIBC = {'memcpy', 'memcmp', 'memmove', 'memset', 'strlen', 'strcmp', 'strncmp', 'malloc', 'free', 'realloc',
        'strcpy', 'abs'}
OPNAMES = {'operator[]': 'op_index', 'operator==': 'op_eq', 'operator!=': 'op_ne', 'operator<': 'op_lt',
           'operator>': 'op_gt', 'operator<=': 'op_le', 'operator>=': 'op_ge', 'operator=': 'op_assign',
           'operator->': 'op_arrow', 'operator*': 'op_star', 'operator()': 'op_call', 'operator++': 'op_inc',
           'operator--': 'op_dec', 'operator+': 'op_plus', 'operator-': 'op_minus', 'operator|': 'op_or',
           'operator&': 'op_and', 'operator!': 'op_not', 'operator+=': 'op_pluseq', 'operator-=': 'op_minuseq',
           'operator new': 'op_new', 'operator delete': 'op_delete', 'operator<<': 'op_shl', 'operator>>': 'op_shr'}


def walk(n):
    yield n
    for c in n.get('inner', ()):
        if isinstance(c, dict):
            yield from walk(c)


class Lowerer:
    def __init__(self, ast, virtual_extern=True):
        self.ast = ast
        self.byid = {}
        self.parent = {}
        self.dependent = set()
        self.records = {}      # normname -> node
        self.rec_name = {}     # id -> normname
        self.enums = {}        # normname -> node
        self.enum_name = {}
        self.aliases = {}      # normname -> type string
        self.body_of = {}      # first-decl id -> definition node (with body)
        self.first_of = {}     # decl id -> first decl id
        self.qname_cache = {}
        self.func_defs = {}    # qname -> [definition nodes]
        self.overloads = {}    # qname -> set of first-decl ids
        self._fn_types_cache = {}
        self._unified_cache = {}
        self._cname_owner = {}
        self.call_edges = set()
        self.index()
        # emission state
        self.needed_funcs = {}     # first id -> cname (queued for emission)
        self.queue = []
        self.extern_funcs = {}     # first id -> cname (declared only)
        self.emitted = {}          # cname -> text
        self.protos = {}           # cname -> prototype
        self.used_records = []     # ordered normnames
        self.const_macros = {}     # cname -> text
        self.const_order = []
        self.global_arrays = {}
        self.loop_contracts = {}   # cname -> {ordinal: text}
        self.loop_contracts_used = set()
        self.stub_names = set()    # cnames that must not be lowered (declaration only)
        self.func_info = {}        # cname -> dict(qname, file, line, mangled)
        self.libc_used = set()
        self.signed_shl_used = set()
        self.string_tables = {}

    # ------------------------------------------------------------------ indexing
    def stamp_locations(self):
        cur = {'file': None, 'line': None}

        def visit(v):
            if isinstance(v, dict):
                is_node = 'kind' in v and 'id' in v
                stamped = False
                for k, x in list(v.items()):
                    if k == 'file' and isinstance(x, str):
                        cur['file'] = x
                    elif k == 'line' and isinstance(x, int):
                        cur['line'] = x
                    elif k == 'includedFrom':
                        continue
                    elif k == 'inner':
                        if is_node and not stamped:
                            v['_file'], v['_line'] = cur['file'], cur['line']
                            stamped = True
                        visit(x)
                    elif isinstance(x, (dict, list)):
                        if k == 'range' and is_node:
                            # line of the node = begin of range
                            visit(x.get('begin', {}))
                            v['_file'], v['_line'] = cur['file'], cur['line']
                            b = x.get('begin', {})
                            off = b.get('offset')
                            if off is None and 'expansionLoc' in b:
                                off = b['expansionLoc'].get('offset')
                            v['_offset'] = off
                            stamped = True
                            visit(x.get('end', {}))
                        else:
                            visit(x)
                if is_node and not stamped:
                    v['_file'], v['_line'] = cur['file'], cur['line']
            elif isinstance(v, list):
                for x in v:
                    visit(x)
        sys.setrecursionlimit(100000)
        visit(self.ast)

    def index(self):
        self.stamp_locations()

        def rec(n, parent, dep):
            nid = n.get('id')
            kind = n.get('kind')
            if nid:
                if nid not in self.byid or 'inner' in n or 'kind' in n and 'kind' not in self.byid[nid]:
                    # prefer full nodes over reference stubs
                    if nid not in self.byid or len(n) > len(self.byid[nid]):
                        self.byid[nid] = n
                        self.parent[nid] = parent
            if dep and nid:
                self.dependent.add(nid)
            inner = n.get('inner', ())
            seen_pattern = False
            for c in inner:
                if not isinstance(c, dict):
                    continue
                cdep = dep
                ck = c.get('kind')
                if kind == 'ClassTemplateDecl' and ck == 'CXXRecordDecl':
                    cdep = True
                elif kind == 'FunctionTemplateDecl' and ck in FUNC_KINDS:
                    if not seen_pattern:
                        cdep = True
                        seen_pattern = True
                elif kind in ('VarTemplateDecl', 'TypeAliasTemplateDecl') and ck in ('VarDecl', 'TypeAliasDecl') and not seen_pattern:
                    cdep = True
                    seen_pattern = True
                if ck in ('ClassTemplatePartialSpecializationDecl', 'VarTemplatePartialSpecializationDecl'):
                    cdep = True
                rec(c, n, cdep)
        rec(self.ast, None, False)
        # second pass: names
        for nid, n in self.byid.items():
            k = n.get('kind')
            if nid in self.dependent:
                continue
            if k in RECORD_KINDS and n.get('completeDefinition'):
                if n.get('isImplicit'):
                    continue
                qn = self.qname(n)
                if qn is None:
                    continue
                self.records.setdefault(qn, n)
                self.rec_name[nid] = qn
            elif k == 'EnumDecl':
                qn = self.qname(n)
                if qn:
                    self.enums.setdefault(qn, n)
                    self.enum_name[nid] = qn
            elif k in ('TypedefDecl', 'TypeAliasDecl'):
                qn = self.qname(n)
                if qn:
                    t = n['type']
                    self.aliases.setdefault(qn, t.get('desugaredQualType') or t.get('qualType'))
            if k in FUNC_KINDS:
                prev = n.get('previousDecl')
                first = nid
                seen = set()
                while prev and prev not in seen:
                    seen.add(prev)
                    first = prev
                    p = self.byid.get(prev)
                    prev = p.get('previousDecl') if p else None
                self.first_of[nid] = first
                if any(isinstance(c, dict) and c.get('kind') == 'CompoundStmt' for c in n.get('inner', ())):
                    self.body_of[first] = n
        for nid, n in self.byid.items():
            if n.get('kind') in FUNC_KINDS and nid not in self.dependent:
                first = self.first_of.get(nid, nid)
                qn = self.qname(self.byid.get(first, n))
                if qn is None:
                    continue
                self.overloads.setdefault(qn, set()).add(first)
                if first in self.body_of and self.body_of[first] is n:
                    self.func_defs.setdefault(qn, []).append(n)

    def source(self, f):
        if not hasattr(self, '_src'):
            self._src = {}
        if f not in self._src:
            self._src[f] = open(f, 'rb').read()
        return self._src[f]

    def targs(self, n):
        out = []
        for c in n.get('inner', ()):
            if isinstance(c, dict) and c.get('kind') == 'TemplateArgument':
                out.extend(self.targ(c))
        return out

    def targ(self, c):
        if 'type' in c:
            try:
                # const is part of a template argument's identity (Reader<const char*> and Reader<char*> are different records)
                return [type_str(T.parse_targ_string(c['type']['qualType']))]
            except T.TypeError_:
                return ['?' + c['type']['qualType']]
        if 'value' in c:
            v = c['value']
            if isinstance(v, bool):
                v = int(v)
            return [str(v)]
        if c.get('isPack') or c.get('inner'):
            out = []
            for x in c.get('inner', ()):
                if isinstance(x, dict) and x.get('kind') == 'TemplateArgument':
                    out.extend(self.targ(x))
                elif isinstance(x, dict) and 'value' in x:
                    out.append(str(x['value']))
            return out
        if 'decl' in c:
            return [c['decl'].get('name', '?')]
        return []

    def qname(self, n):
        nid = n.get('id')
        if nid in self.qname_cache:
            return self.qname_cache[nid]
        k = n.get('kind')
        name = n.get('name')
        if k in RECORD_KINDS and not name:
            # anonymous record: name from location
            # (same spelling as cxxtypes gives "(anonymous union at file.hpp:L:C)" so that type strings resolve to it)
            loc = n.get('loc', {})
            if 'col' not in loc:
                loc = loc.get('expansionLoc', loc)
            name = 'anon_' + re.sub(r'[^A-Za-z0-9]', '_', '%s:%s:%s' % (os.path.basename(n.get('_file') or 'x'), n.get('_line', 'x'), loc.get('col', nid[-5:])))
        if name is None:
            self.qname_cache[nid] = None
            return None
        if k == 'ClassTemplateSpecializationDecl' or (k in FUNC_KINDS and self.is_func_template_inst(n)):
            a = self.targs(n)
            if a or k == 'ClassTemplateSpecializationDecl':
                name = name + '<' + ', '.join(a) + '>'
        # semantic parent
        pid = n.get('parentDeclContextId')
        par = self.byid.get(pid) if pid else self.parent.get(nid)
        parts = [name]
        guard = 0
        while par is not None and guard < 64:
            guard += 1
            pk = par.get('kind')
            if pk == 'NamespaceDecl':
                pn = par.get('name')
                if pn and not T.NS_STRIP.match(pn):
                    parts.insert(0, pn)
            elif pk in RECORD_KINDS:
                pq = self.qname(par)
                if pq:
                    parts.insert(0, pq)
                break
            elif pk in FUNC_KINDS:
                pq = self.qname(par)
                if pq:
                    parts.insert(0, pq)
                break
            ppid = par.get('parentDeclContextId')
            par = self.byid.get(ppid) if ppid else self.parent.get(par.get('id'))
        q = '::'.join(parts)
        self.qname_cache[nid] = q
        return q

    def is_func_template_inst(self, n):
        p = self.parent.get(n.get('id'))
        return p is not None and p.get('kind') == 'FunctionTemplateDecl' and n.get('id') not in self.dependent

    # ------------------------------------------------------------------ types
    def resolve(self, t):
        """fully resolve aliases in a type tree; 'named' leaves become ('builtin',n) ('rec',n) ('enum',n)"""
        k = t[0]
        if k == 'named':
            return self.resolve_named(t[1])
        if k in ('ptr', 'ref', 'rref'):
            return (k, self.resolve(t[1]))
        if k == 'arr':
            return ('arr', self.resolve(t[1]), t[2])
        if k == 'func':
            return ('func', self.resolve(t[1]), [self.resolve(x) for x in t[2]], t[3])
        return t

    def resolve_named(self, name, depth=0):
        if depth > 20:
            raise LowerError('alias cycle at ' + name)
        if name in T.BUILTINS:
            return ('builtin', name)
        if name in self.records:
            return ('rec', name)
        if name in self.enums:
            return ('enum', name)
        if name in self.aliases:
            return self.resolve_alias(self.aliases[name], depth)
        # alias templates of the polyfills that clang prints unexpanded
        m = re.match(r'^(remove_reference_t|remove_cv_t|remove_const_t|type_identity_t)<(.*)>$', name)
        if m:
            try:
                inner = self.resolve(T.parse(m.group(2)))
            except T.TypeError_ as e:
                raise LowerError(str(e))
            if m.group(1) == 'remove_reference_t' and inner[0] in ('ref', 'rref'):
                inner = inner[1]
            return inner
        # suffix lookup
        suf = '::' + name
        cands = [k for k in self.records if k.endswith(suf)]
        if len(cands) == 1:
            return ('rec', cands[0])
        if len(cands) > 1 and name.startswith('anon_'):
            # function-local anonymous union of a member of several class-template instantiations: the type string
            # carries no scope; accept only if every candidate has the same members
            sigs = set(tuple((f.get('name'), f['type'].get('desugaredQualType') or f['type'].get('qualType'))
                             for f in self.record_fields(self.records[k])) for k in cands)
            if len(sigs) == 1:
                return ('rec', sorted(cands)[0])
        ec = [k for k in self.enums if k.endswith(suf)]
        if len(ec) == 1 and not cands:
            return ('enum', ec[0])
        ac = [k for k in self.aliases if k.endswith(suf)]
        if ac and not cands and not ec:
            vals = set(self.aliases[k] for k in ac)
            if len(vals) == 1:
                return self.resolve_alias(vals.pop(), depth)
        # clang omits defaulted template arguments when printing: Name<a> may be the record Name<a, void>
        if name.endswith('>'):
            pre = name[:-1] + ', '
            cands = [k for k in self.records if k.startswith(pre)]
            if len(cands) == 1:
                return ('rec', cands[0])
            if not cands:
                pre2 = '::' + pre
                cands = [k for k in self.records if pre2 in k and k.endswith('>') and k.index(pre2) + len(pre2) > 0 and '::' not in k[k.index(pre2) + len(pre2):].split('>')[-1]]
                cands = [k for k in cands if k.endswith(k[k.index(pre2):])]
                if len(cands) == 1:
                    return ('rec', cands[0])
        # member typedef of a record spelled differently from its registered name, or inherited from a base class:
        # `typename StringAdapter<JsonString>::AdaptedString`, `typename Comparer<long>::result_type`
        qparts = split_qname(name)
        if len(qparts) > 1:
            owner = self.resolve_named('::'.join(qparts[:-1]), depth + 1)
            if owner[0] == 'rec':
                todo = [owner[1]]   # the record under its registered spelling (defaulted arguments added), then its bases
                while todo:
                    b = todo.pop(0)
                    key = b + '::' + qparts[-1]
                    if key in self.aliases:
                        return self.resolve_alias(self.aliases[key], depth)
                    if key in self.records:
                        return ('rec', key)
                    if key in self.enums:
                        return ('enum', key)
                    todo.extend(self.record_bases(self.records[b]))
        # records are registered with cv-less top-level template arguments (targ()): SerializedValue<const char *> is
        # the record SerializedValue<char *>
        if 'const ' in name:
            r = self.resolve_named(re.sub(r'\bconst\s+', '', name), depth + 1)
            if r[0] == 'rec':
                return r
        # clang's JSON dump prints the non-type template argument `true` of a bool parameter as -1 where the record is declared
        # (a 1-bit signed rendering) but as `true` in type strings: integral_constant<bool, true> is the record <_Bool, -1>
        if '_Bool, 1' in name and depth < 20:
            r = self.resolve_named(re.sub(r'\b_Bool, 1\b', '_Bool, -1', name), 20)
            if r[0] == 'rec':
                return r
        # incomplete types (declared, never defined in this TU): opaque struct
        return ('opaque', name)

    def resolve_alias(self, s, depth):
        try:
            t = T.parse(s)
        except T.TypeError_ as e:
            raise LowerError(str(e))
        k = t[0]
        if k == 'named':
            return self.resolve_named(t[1], depth + 1)
        return self.resolve(t)

    def rtype(self, tnode):
        """resolved type tree for an AST 'type' object"""
        s = tnode.get('desugaredQualType') or tnode.get('qualType')
        return self.rtype_s(s)

    def rtype_s(self, s):
        s = strip_sfinae(s)
        # clang prints a reference to an array that comes from a substituted template parameter (`const T&` with T = char[8]) as
        # 'const char &[8]'.  No C++ type is spelled that way (arrays of references do not exist), so the only reading is the
        # reference to the array, 'const char (&)[8]'.
        m = re.match(r'^(.*?[^&\s])\s*(&&?)((?:\[\d*\])+)$', s)
        if m:
            s = '%s (%s)%s' % (m.group(1), m.group(2), m.group(3))
        try:
            return self.resolve(T.parse(s))
        except T.TypeError_ as e:
            raise LowerError(str(e))

    def use_record(self, name):
        if name not in self.used_records:
            self.used_records.append(name)

    def cbase(self, t):
        k = t[0]
        if k == 'builtin':
            return t[1]
        if k == 'rec':
            self.use_record(t[1])
            n = self.records[t[1]]
            return ('union ' if n.get('tagUsed') == 'union' else 'struct ') + sanitize(t[1])
        if k == 'opaque':
            return 'struct ' + sanitize(t[1])
        if k == 'enum':
            return self.enum_ctype(t[1])
        raise LowerError('cbase of %r' % (t,))

    def enum_ctype(self, name):
        n = self.enums[name]
        ft = n.get('fixedUnderlyingType')
        if ft:
            return self.cdecl(self.rtype(ft), '')
        neg = False
        for c in n.get('inner', ()):
            if c.get('kind') == 'EnumConstantDecl':
                v = self.enum_const_value(c)
                if v < 0:
                    neg = True
        return 'int' if neg else 'unsigned int'

    def cdecl(self, t, name):
        """C declarator for resolved type t and identifier name ('' for abstract)"""
        k = t[0]
        if k in ('builtin', 'rec', 'enum', 'opaque'):
            return (self.cbase(t) + (' ' + name if name else '')).strip()
        if k in ('ptr', 'ref', 'rref'):
            inner = t[1]
            if inner[0] in ('arr', 'func'):
                return self.cdecl(inner, '(*%s)' % name)
            return self.cdecl(inner, '*' + name)
        if k == 'arr':
            return self.cdecl(t[1], '%s[%s]' % (name, '' if t[2] is None else t[2]))
        if k == 'func':
            ps = ', '.join(self.cdecl(p, '') for p in t[2]) or 'void'
            return self.cdecl(t[1], '%s(%s)' % (name, ps))
        raise LowerError('cdecl of %r' % (t,))

    def is_ref(self, t):
        return t[0] in ('ref', 'rref')

    def strip_ref(self, t):
        return t[1] if t[0] in ('ref', 'rref') else t

    # ------------------------------------------------------------------ records
    def record_bases(self, n):
        out = []
        for b in n.get('bases', ()):
            bt = self.rtype(b['type'])
            if bt[0] != 'rec':
                raise LowerError('base %r of %s is not a known record' % (b['type'], self.qname(n)))
            out.append(bt[1])
        return out

    def record_is_empty(self, name):
        n = self.records[name]
        return bool(n.get('definitionData', {}).get('isEmpty'))

    def record_fields(self, n):
        out = []
        for c in n.get('inner', ()):
            if c.get('kind') == 'FieldDecl':
                if c.get('isBitfield'):
                    raise LowerError('bit-field in ' + self.qname(n))
                out.append(c)
        return out

    def anon_member_record(self, n, f):
        """the anonymous struct/union declared in record n of which the unnamed field f is the implicit object (else None)"""
        if f.get('name'):
            return None
        last = None
        for c in n.get('inner', ()):
            if c.get('kind') in RECORD_KINDS and not c.get('name') and c.get('completeDefinition'):
                last = c
            elif c is f:
                return last
        return None

    def field_lines(self, n, ind):
        """C member declarations for the fields of record node n; anonymous struct/union members are emitted inline (C11)"""
        lines = []
        for f in self.record_fields(n):
            a = self.anon_member_record(n, f)
            if a is not None:
                if a.get('bases') or a.get('definitionData', {}).get('isPolymorphic'):
                    raise LowerError('anonymous member record with bases in ' + self.qname(n))
                lines.append('%s%s {' % (ind, 'union' if a.get('tagUsed') == 'union' else 'struct'))
                lines.extend(self.field_lines(a, ind + '  '))
                lines.append(ind + '};')
                continue
            ft = self.rtype(f['type'])
            fname = f.get('name') or ''
            if self.is_ref(ft):
                ft = ('ptr', ft[1])
            if self.unified_ptr_field(f):
                self.touch(ft)
                ft = ('ptr', ('builtin', 'void'))
            lines.append('%s%s;' % (ind, self.cdecl(ft, fname)))
        return lines

    def unified_ptr_field(self, f):
        """CBMC 6.11 tracks the points-to set of only one pointer-typed member of a union (reads through the others give
        spurious failures). Pointer members of a union that has pointer members of >= 2 distinct types are therefore declared
        `void *` in the lowered C and cast back to their real type at every read (same size, same representation)."""
        fid = f.get('id')
        if fid in self._unified_cache:
            return self._unified_cache[fid]
        par = self.parent.get(fid)
        res = False
        if par is not None and par.get('tagUsed') == 'union':
            kinds = set()
            for g in self.record_fields(par):
                gt = self.rtype(g['type'])
                if gt[0] == 'ptr':
                    kinds.add(self.type_name(gt))
            ft = self.rtype(f['type'])
            res = len(kinds) >= 2 and ft[0] == 'ptr'
        self._unified_cache[fid] = res
        return res

    def emit_record(self, name):
        n = self.records[name]
        kw = 'union' if n.get('tagUsed') == 'union' else 'struct'
        lines = ['%s %s {' % (kw, sanitize(name))]
        dd = n.get('definitionData', {})
        bases = self.record_bases(n)
        poly_in_base = False
        members = 0
        for b in bases:
            bn = self.records[b]
            if bn.get('definitionData', {}).get('isPolymorphic'):
                poly_in_base = True
            if self.record_is_empty(b):
                continue
            lines.append('  %s;' % self.cdecl(('rec', b), '_b_' + sanitize(b)))
            members += 1
        if dd.get('isPolymorphic') and not poly_in_base:
            lines.insert(1, '  void *_vptr;')
            members += 1
        fl = self.field_lines(n, '  ')
        lines.extend(fl)
        members += len(fl)
        if members == 0:
            lines.append('  char _empty;')
        lines.append('};')
        return '\n'.join(lines)

    def record_deps(self, name):
        """records needed by value (complete) for the definition of `name`"""
        n = self.records[name]
        deps = []
        for b in self.record_bases(n):
            if not self.record_is_empty(b):
                deps.append(b)

        def byval(t):
            if t[0] == 'rec':
                deps.append(t[1])
            elif t[0] == 'arr':
                byval(t[1])
            elif t[0] in ('ptr', 'ref', 'rref'):
                self.touch(t[1])
        def fields_of(rn):
            for f in self.record_fields(rn):
                a = self.anon_member_record(rn, f)
                if a is not None:
                    fields_of(a)
                else:
                    byval(self.rtype(f['type']))
        fields_of(n)
        return deps

    def touch(self, t):
        if t[0] == 'rec':
            self.use_record(t[1])
        elif t[0] in ('ptr', 'ref', 'rref', 'arr'):
            self.touch(t[1])
        elif t[0] == 'func':
            self.touch(t[1])
            for p in t[2]:
                self.touch(p)

    def emit_types(self):
        done = []
        out = []
        opaque = set()
        visiting = set()

        def visit(name):
            if name in done:
                return
            if name in visiting:
                raise LowerError('by-value record cycle at ' + name)
            visiting.add(name)
            for d in self.record_deps(name):
                self.use_record(d)
                visit(d)
            visiting.discard(name)
            done.append(name)
            out.append(self.emit_record(name))
        i = 0
        while i < len(self.used_records):
            visit(self.used_records[i])
            i += 1
        fwd = []
        for name in done:
            n = self.records[name]
            kw = 'union' if n.get('tagUsed') == 'union' else 'struct'
            fwd.append('%s %s;' % (kw, sanitize(name)))
        return '\n'.join(fwd) + '\n\n' + '\n\n'.join(out) + '\n'

    # ------------------------------------------------------------------ function naming
    def func_first(self, nid):
        return self.first_of.get(nid, nid)

    def func_node(self, first):
        return self.byid[first]

    def func_sig_params(self, n):
        return [c for c in n.get('inner', ()) if isinstance(c, dict) and c.get('kind') == 'ParmVarDecl']

    def cname_of(self, first):
        n = self.byid[first]
        qn = self.qname(n)
        k = n.get('kind')
        parts = qn.split('::')
        # split carefully: template args may contain '::'
        parts = split_qname(qn)
        last = parts[-1]
        base = last
        targs = ''
        m = re.match(r'^(operator\s*[^<]*?|[~A-Za-z_0-9]+|operator<<?=?)(<.*>)?$', last)
        if last.startswith('operator'):
            # operator names: keep the operator token, template args only after a space-free '<' is ambiguous
            opn = n.get('name')
            base = opn
            targs = last[len(opn):]
        elif m:
            base, targs = m.group(1), m.group(2) or ''
        if k == 'CXXConstructorDecl':
            base = 'ctor'
        elif k == 'CXXDestructorDecl':
            base = 'dtor'
            targs = ''
        elif k == 'CXXConversionDecl':
            ct = self.fn_types(n)
            base = 'op_conv_' + sanitize(self.type_name(ct[1]))
        elif base.startswith('operator'):
            key = re.sub(r'\s+', '', base)
            key2 = 'operator ' + key[len('operator'):] if key[len('operator'):] in ('new', 'delete') else key
            if key2 not in OPNAMES:
                raise LowerError('operator name %r' % base)
            base = OPNAMES[key2]
        name = '__'.join([sanitize(p) for p in parts[:-1]] + [base + (sanitize(targs) if targs else '')])
        if len(self.overloads.get(qn, ())) > 1 and k != 'CXXConversionDecl':
            ft = self.fn_types(n)
            name += '__' + ('_'.join(sanitize(self.type_name(p)) for p in ft[2]) or 'void')
        return name

    def type_name(self, t):
        k = t[0]
        if k in ('builtin', 'rec', 'enum', 'opaque'):
            return t[1]
        if k == 'ptr':
            return self.type_name(t[1]) + ' *'
        if k == 'ref':
            return self.type_name(t[1]) + ' &'
        if k == 'rref':
            return self.type_name(t[1]) + ' &&'
        if k == 'arr':
            return self.type_name(t[1]) + '[%s]' % ('' if t[2] is None else t[2])
        if k == 'func':
            return 'fn'
        raise LowerError('type_name %r' % (t,))

    def find_functions(self, pattern, sig=None):
        """definitions whose qualified name equals `pattern` (or matches it as a regex when it starts with 're:')"""
        out = []
        if pattern.startswith('re:'):
            rx = re.compile(pattern[3:])
            for qn, defs in self.func_defs.items():
                if rx.fullmatch(qn):
                    out.extend(defs)
        else:
            out = list(self.func_defs.get(pattern, ()))
        if sig is not None:
            keep = []
            for n in out:
                ft = self.fn_types(n)
                s = ', '.join(self.type_name(p) for p in ft[2])
                if s == sig:
                    keep.append(n)
            out = keep
        return out

    def require(self, nid):
        """request function (by any decl id); returns C name"""
        first = self.func_first(nid)
        if first in self.needed_funcs:
            return self.needed_funcs[first]
        if first in self.extern_funcs:
            return self.extern_funcs[first]
        n = self.byid.get(first)
        if n is None:
            raise LowerError('unknown function decl ' + nid)
        if first in self.dependent:
            raise LowerError('reference to dependent (uninstantiated) function ' + str(self.qname(n)))
        name = n.get('name')
        qn = self.qname(n)
        if n.get('kind') == 'FunctionDecl' and name in LIBC and qn == name:
            self.libc_used.add(name)
            self.extern_funcs[first] = name
            return name
        if n.get('kind') == 'FunctionDecl' and name and name.startswith('__builtin_'):
            self.extern_funcs[first] = name
            return name
        cname = self.cname_of(first)
        # two distinct declarations must never share a C name (e.g. instantiations that differ only in a template
        # template argument, which clang's JSON does not print): disambiguate with the Itanium mangled name
        owner = self._cname_owner.get(cname)
        if owner is not None and owner != first:
            import hashlib
            mn = (self.body_of.get(first, n)).get('mangledName') or n.get('mangledName') or first
            cname = cname + '__' + re.sub(r'[^A-Za-z0-9]', '', mn)[-24:]
            owner2 = self._cname_owner.get(cname)
            if owner2 is not None and owner2 != first:
                raise LowerError('C name collision for %s' % qn)
        self._cname_owner[cname] = first
        has_body = first in self.body_of
        virtual = bool(n.get('virtual'))
        if virtual or not has_body or cname in self.stub_names:
            self.extern_funcs[first] = cname
            self.protos[cname] = self.prototype(n, cname)
            self.record_info(cname, n)
            return cname
        self.needed_funcs[first] = cname
        self.queue.append(first)
        return cname

    def record_info(self, cname, n):
        d = self.body_of.get(self.func_first(n['id']), n)
        self.func_info[cname] = {'qname': self.qname(self.byid[self.func_first(n['id'])]),
                                 'mangled': d.get('mangledName'),
                                 'file': d.get('_file'), 'line': d.get('_line'),
                                 'has_body': self.func_first(n['id']) in self.body_of}

    def is_static_method(self, n):
        return n.get('kind') != 'CXXMethodDecl' and n.get('kind') not in ('CXXConstructorDecl', 'CXXDestructorDecl', 'CXXConversionDecl') \
            or n.get('storageClass') == 'static'

    def method_record(self, n):
        """normname of the record a member function belongs to"""
        first = self.byid[self.func_first(n['id'])]
        pid = first.get('parentDeclContextId')
        par = self.byid.get(pid) if pid else self.parent.get(first['id'])
        while par is not None and par.get('kind') not in RECORD_KINDS:
            if par.get('kind') in ('FunctionTemplateDecl',):
                ppid = par.get('parentDeclContextId')
                par = self.byid.get(ppid) if ppid else self.parent.get(par['id'])
                continue
            return None
        if par is None:
            return None
        nm = self.rec_name.get(par['id'])
        if nm is None:
            # maybe a redeclaration node of the record; look up by qname
            q = self.qname(par)
            if q in self.records:
                return q
            raise LowerError('record of method %s not found' % self.qname(first))
        return nm

    def fn_types(self, n):
        key = n.get('id')
        if key in self._fn_types_cache:
            return self._fn_types_cache[key]
        ft = self.fn_types_uncached(n)
        self._fn_types_cache[key] = ft
        return ft

    def fn_types_uncached(self, n):
        s = strip_sfinae(n['type']['qualType'])
        ret_s, params_s = split_func_type(s)
        if ret_s is None:
            raise LowerError('not a function type: ' + s)
        variadic = False
        # parameters: from the ParmVarDecls (desugared) when available, else parse
        d = self.body_of.get(self.func_first(n['id']), n)
        pdecls = self.func_sig_params(d)
        ptxt = split_top_commas(params_s)
        if ptxt and ptxt[-1].strip() == '...':
            variadic = True
            ptxt = ptxt[:-1]
        if ptxt == ['void'] or ptxt == ['']:
            ptxt = []
        params = []
        if len(pdecls) == len(ptxt):
            for p in pdecls:
                params.append(self.rtype(p['type']))
        else:
            for p in ptxt:
                params.append(self.rtype_s(p))
        # arrays as parameters decay
        params = [('ptr', p[1]) if p[0] == 'arr' else p for p in params]
        ret = self.ret_type_of(n, ret_s)
        return ('func', ret, params, variadic)

    def ret_type_of(self, n, ret_s):
        ret_s = ret_s.strip()
        if n.get('kind') in ('CXXConstructorDecl', 'CXXDestructorDecl'):
            return ('builtin', 'void')
        if ret_s == 'auto' or 'decltype' in ret_s or ret_s.startswith('auto '):
            d = self.body_of.get(self.func_first(n['id']))
            if d is None:
                raise LowerError('deduced return type of %s without body' % self.qname(n))
            for x in walk(d):
                if x.get('kind') == 'ReturnStmt':
                    ks = [c for c in x.get('inner', ()) if isinstance(c, dict)]
                    if not ks:
                        return ('builtin', 'void')
                    e = ks[0]
                    t = self.rtype(e['type'])
                    if 'decltype' in n['type']['qualType'] and e.get('valueCategory') == 'lvalue' and e.get('kind') not in ('DeclRefExpr',):
                        return ('ref', t)
                    return t
            return ('builtin', 'void')
        return self.rtype_s(ret_s)

    def by_invisible_ref(self, pt):
        """a by-value parameter of a class type that cannot be passed in registers (non-trivial copy/move constructor or
        destructor): the caller constructs the object and passes its address (Itanium C++ ABI 3.1.2.3); a C struct copy would
        break self-referential members (MemoryPoolList::pools_ designating its own preallocatedPools_)"""
        if pt[0] != 'rec':
            return False
        dd = self.records[pt[1]].get('definitionData', {})
        if not dd or dd.get('canPassInRegisters') or dd.get('isTriviallyCopyable'):
            return False
        # restricted to classes with a non-trivial destructor: their by-value arguments are always CXXBindTemporaryExpr nodes,
        # which used to abort the lowering of the call (classes with only a user-provided copy constructor keep the C by-value form)
        return bool(dd.get('dtor', {}).get('nonTrivial'))

    def prototype(self, n, cname):
        ft = self.fn_types(n)
        d = self.body_of.get(self.func_first(n['id']), n)
        params = self.func_sig_params(d)
        ps = []
        k = n.get('kind')
        if not self.is_static_method(n):
            rec = self.method_record(n)
            ps.append(self.cdecl(('ptr', ('rec', rec)), 'self'))
            self.use_record(rec)
        for i, pt in enumerate(ft[2]):
            pname = params[i].get('name') if i < len(params) else None
            pname = pname or ('_p%d' % i)
            if self.is_ref(pt):
                pt = ('ptr', pt[1])
            if pt[0] == 'arr':
                pt = ('ptr', pt[1])
            if self.by_invisible_ref(pt):
                pt = ('ptr', pt)
            self.touch(pt)
            if pt[0] == 'rec':
                self.use_record(pt[1])
            ps.append(self.cdecl(pt, cident(pname)))
        rt = ft[1]
        if k in ('CXXConstructorDecl', 'CXXDestructorDecl'):
            rt = ('builtin', 'void')
        if self.is_ref(rt):
            rt = ('ptr', rt[1])
        self.touch(rt)
        if rt[0] == 'rec':
            self.use_record(rt[1])
        return self.cdecl(rt, '%s(%s)' % (cname, ', '.join(ps) or 'void'))

    # ------------------------------------------------------------------ driver
    def lower_all(self):
        while self.queue:
            first = self.queue.pop(0)
            cname = self.needed_funcs[first]
            if cname in self.emitted:
                continue
            d = self.body_of[first]
            fl = FuncLowerer(self, d, cname)
            self.emitted[cname] = fl.lower()
            self.protos[cname] = self.prototype(self.byid[first], cname)
            self.record_info(cname, self.byid[first])

    def output(self, types_only=False):
        self.lower_all()
        body = []
        for cname, text in self.emitted.items():
            body.append(text)
        types = self.emit_types()
        parts = ['/* generated by ajlower from clang AST of /repo/src -- do not edit */',
                 '#include <stdint.h>', '#include <stddef.h>', '#include <string.h>', '#include <stdlib.h>',
                 '/* floating -> integer conversions (undefined when the truncated value does not fit T): a spec file may',
                 ' * define AJ_FLOAT_TO_INT before including this file to assert definedness at every such cast */',
                 '#ifndef AJ_FLOAT_TO_INT', '#define AJ_FLOAT_TO_INT(T, x) ((T)(x))', '#endif', '']
        parts.append(types)
        for c in self.const_order:
            parts.append(self.const_macros[c])
        parts.append('')
        for cname, p in self.protos.items():
            parts.append(p + ';')
        parts.append('')
        if not types_only:
            if self.signed_shl_used:
                # C makes E1 << E2 undefined as soon as the result does not fit the signed type (1 << 31); C++11 (CWG 1457)
                # to C++17 define it whenever E1 >= 0 and E1 * 2^E2 fits the corresponding unsigned type (the value is
                # then converted), C++20 always.  Lower with the C++14 rule, keeping its undefined cases as an assertion.
                for tn in sorted(self.signed_shl_used):
                    cn = tn.replace(' ', '')
                    parts.append('static inline %s AJ_SHL_%s(%s a, unsigned long b) {\n'
                                 '  __CPROVER_assert(a >= 0 && (((unsigned %s)a << b) >> b) == (unsigned %s)a, '
                                 '"signed left shift is defined (C++14 [expr.shift]: non-negative, fits the unsigned type)");\n'
                                 '  return (%s)((unsigned %s)a << b);\n}' % (tn, cn, tn, tn, tn, tn, tn))
                parts.append('')
            parts.extend(body)
        return '\n'.join(parts) + '\n'

    def static_census(self, src_prefix):
        """every variable with static storage duration declared in files under src_prefix: (qname, file, line, type, const?)"""
        out = []
        seen = set()
        for nid, n in self.byid.items():
            if n.get('kind') != 'VarDecl':
                continue
            f = n.get('_file') or ''
            if not f.startswith(src_prefix):
                continue
            par = self.parent.get(nid)
            pk = par.get('kind') if par else None
            static_storage = n.get('storageClass') == 'static' or pk in ('NamespaceDecl', 'TranslationUnitDecl') or \
                (pk in RECORD_KINDS) or pk in ('VarTemplateDecl',)
            # locals without 'static' have automatic storage
            if not static_storage:
                continue
            if n.get('storageClass') == 'extern' and not n.get('inner'):
                pass
            key = (f, n.get('_line'), n.get('name'))
            if key in seen:
                continue
            seen.add(key)
            qt = n.get('type', {}).get('qualType', '')
            dq = n.get('type', {}).get('desugaredQualType', qt)
            is_const = bool(n.get('constexpr')) or qt.startswith('const ') or dq.startswith('const ') or ' const' in qt or \
                re.search(r'\bconst\b', qt.split('[')[0]) is not None
            out.append({'name': self.qname(n) or n.get('name'), 'file': f, 'line': n.get('_line'), 'type': qt, 'const': is_const,
                        'dependent': nid in self.dependent})
        return out

    def reset_emission(self):
        self.call_edges = set()
        self._cname_owner = {}
        self.needed_funcs = {}
        self.queue = []
        self.extern_funcs = {}
        self.emitted = {}
        self.protos = {}
        self.used_records = []
        self.const_macros = {}
        self.const_order = []
        self.loop_contracts = {}
        self.loop_contracts_used = set()
        self.stub_names = set()
        self.func_info = {}
        self.libc_used = set()
        self.signed_shl_used = set()

    # ------------------------------------------------------------------ native shim (C++ side of covalidate / replay)
    def cpp_targs(self, n):
        out = []

        def one(c):
            if 'type' in c:
                return [strip_sfinae(c['type']['qualType'])]
            if 'value' in c:
                v = c['value']
                if isinstance(v, bool):
                    return ['true' if v else 'false']
                return [str(v)]
            r = []
            for x in c.get('inner', ()):
                if isinstance(x, dict) and x.get('kind') == 'TemplateArgument':
                    r.extend(one(x))
            return r
        for c in n.get('inner', ()):
            if isinstance(c, dict) and c.get('kind') == 'TemplateArgument':
                out.extend(one(c))
        return out

    def cpp_scope(self, n):
        """C++ spelling of the scope (namespace / class chain) that declares n, ending with '::' (or '')"""
        pid = n.get('parentDeclContextId')
        par = self.byid.get(pid) if pid else self.parent.get(n.get('id'))
        parts = []
        guard = 0
        while par is not None and guard < 64:
            guard += 1
            pk = par.get('kind')
            if pk == 'NamespaceDecl':
                if par.get('name') and not par.get('isInline'):
                    parts.insert(0, par['name'])
            elif pk in RECORD_KINDS:
                nm = par.get('name')
                if not nm:
                    raise LowerError('anonymous record in C++ scope')
                if pk == 'ClassTemplateSpecializationDecl':
                    nm += '<' + ', '.join(self.cpp_targs(par)) + ' >'
                parts.insert(0, nm)
            elif pk in FUNC_KINDS:
                raise LowerError('function-local entity has no C++ qualified name')
            ppid = par.get('parentDeclContextId')
            par = self.byid.get(ppid) if ppid else self.parent.get(par.get('id'))
        return ''.join(p + '::' for p in parts)

    def cpp_type_of(self, tnode):
        s = tnode.get('desugaredQualType') or tnode.get('qualType')
        return strip_sfinae(s)

    def shim_wrapper(self, cname, first):
        n = self.byid[first]
        d = self.body_of.get(first, n)
        k = n.get('kind')
        ft = self.fn_types(n)
        pdecls = self.func_sig_params(d)
        if len(pdecls) != len(ft[2]):
            raise LowerError('parameter list mismatch')
        static = self.is_static_method(n)
        cparams = []
        args = []
        if not static:
            cparams.append('void* self')
        for i, (p, pt) in enumerate(zip(pdecls, ft[2])):
            cpp = self.cpp_type_of(p['type'])
            nm = 'a%d' % i
            if pt[0] in ('ref', 'rref'):
                base = re.sub(r'\s*&&?\s*$', '', cpp)
                if pt[1][0] == 'arr':
                    raise LowerError('reference to array parameter')
                cparams.append('void* ' + nm)
                if pt[0] == 'ref':
                    args.append('*reinterpret_cast<%s*>(%s)' % (base, nm))
                else:
                    args.append('static_cast<%s&&>(*reinterpret_cast<%s*>(%s))' % (base, base, nm))
            elif pt[0] == 'ptr':
                if pt[1][0] == 'func':
                    raise LowerError('function pointer parameter')
                cparams.append('void* ' + nm)
                args.append('nullptr' if 'nullptr_t' in cpp else '(%s)(%s)' % (cpp, nm))
            elif pt[0] == 'enum':
                cparams.append('%s %s' % (self.enum_ctype(pt[1]).replace('_Bool', 'bool'), nm))
                args.append('static_cast<%s>(%s)' % (cpp, nm))
            elif pt[0] == 'builtin':
                cparams.append('%s %s' % (pt[1].replace('_Bool', 'bool'), nm))
                args.append(nm)
            elif pt[0] == 'rec':
                dd = self.records[pt[1]].get('definitionData', {})
                if self.by_invisible_ref(pt):
                    # the C side passes the address of a caller-constructed object (see by_invisible_ref): the real
                    # parameter is move-constructed from it; the caller's object stays valid and is destroyed by the caller
                    cparams.append('void* ' + nm)
                    args.append('static_cast<%s&&>(*reinterpret_cast<%s*>(%s))' % (cpp, cpp, nm))
                    continue
                if not (dd.get('isTriviallyCopyable') or dd.get('canPassInRegisters')):
                    raise LowerError('non-trivially-copyable by-value parameter')
                cparams.append('%s %s' % (cpp, nm))
                args.append(nm)
            else:
                raise LowerError('parameter type %r' % (pt,))
        targs = ''
        if self.is_func_template_inst(n):
            ta = self.cpp_targs(n)
            # clang's JSON prints the value `true` of a bool non-type template argument as -1 (not a valid argument for a bool
            # parameter): spell it `true` where the template declares a bool parameter at that position
            tpl = self.parent.get(n.get('id')) or {}
            tparams = [c for c in tpl.get('inner', ()) if isinstance(c, dict) and c.get('kind') in ('TemplateTypeParmDecl', 'NonTypeTemplateParmDecl', 'TemplateTemplateParmDecl')]
            if len(tparams) == len(ta):
                for i, tp in enumerate(tparams):
                    if tp.get('kind') == 'NonTypeTemplateParmDecl' and ta[i] == '-1' and not tp.get('isParameterPack'):
                        tq = (tp.get('type') or {})
                        if 'bool' in (tq.get('desugaredQualType') or tq.get('qualType') or ''):
                            ta[i] = 'true'
            if ta:
                targs = '<' + ', '.join(ta) + ' >'
        name = n.get('name')
        scope = self.cpp_scope(n)
        rt = ft[1]
        if k == 'CXXConstructorDecl':
            cls = scope[:-2]
            call = 'new (self) %s(%s)' % (cls, ', '.join(args))
            body = '  %s;' % call
            return 'extern "C" void %s(%s) {\n%s\n}\n' % (cname, ', '.join(cparams), body)
        if k == 'CXXDestructorDecl':
            cls = scope[:-2]
            return 'extern "C" void %s(void* self) {\n  using T_ = %s;\n  reinterpret_cast<T_*>(self)->~T_();\n}\n' % (cname, cls)
        if static:
            call = '%s%s%s%s(%s)' % (scope, 'template ' if (targs and scope and '<' in scope) else '', name, targs, ', '.join(args))
            if k == 'FunctionDecl' and len(args) == 2 and name in ('operator==', 'operator!=', 'operator<', 'operator<=', 'operator>', 'operator>='):
                # free comparison operators are mostly hidden friends (found by ADL only): call them in infix form
                call = '((%s) %s (%s))' % (args[0], name[len('operator'):], args[1])
            elif k == 'FunctionDecl' and not name.startswith('operator') and args and not targs and self.is_hidden_friend(n):
                # a friend function defined inside its class (hidden friend, e.g. swap(JsonDocument&, JsonDocument&)) is not a
                # member of the enclosing namespace: only argument-dependent lookup finds it
                call = '%s(%s)' % (name, ', '.join(args))
        else:
            cls = scope[:-2]
            if k == 'CXXConversionDecl':
                call = 'reinterpret_cast<%s*>(self)->%s()' % (cls, name)
            else:
                call = 'reinterpret_cast<%s*>(self)->%s%s%s(%s)' % (cls, 'template ' if targs else '', name, targs, ', '.join(args))
        if rt == ('builtin', 'void'):
            return 'extern "C" void %s(%s) {\n  %s;\n}\n' % (cname, ', '.join(cparams), call)
        if rt[0] == 'rref':
            # the address of an xvalue cannot be taken (`&move(x)` is ill-formed): bind it to a forwarding reference first
            return 'extern "C" void* %s(%s) {\n  auto&& r_ = %s;\n  return (void*)&r_;\n}\n' % (cname, ', '.join(cparams), call)
        if rt[0] in ('ref', 'rref'):
            return 'extern "C" void* %s(%s) {\n  return (void*)&%s;\n}\n' % (cname, ', '.join(cparams), call)
        if rt[0] == 'enum':
            return 'extern "C" %s %s(%s) {\n  return static_cast<%s>(%s);\n}\n' % (self.enum_ctype(rt[1]), cname, ', '.join(cparams), self.enum_ctype(rt[1]), call)
        if rt[0] == 'ptr':
            return 'extern "C" void* %s(%s) {\n  return (void*)%s;\n}\n' % (cname, ', '.join(cparams), call)
        if rt[0] == 'rec':
            dd = self.records[rt[1]].get('definitionData', {})
            if not (dd.get('isTriviallyCopyable') or dd.get('canPassInRegisters')):
                raise LowerError('non-trivially-copyable return type')
            # return through a layout-identical POD blob so that the C ABI classification matches the C struct
            return ('extern "C" auto %s(%s) {\n  return %s;\n}\n' % (cname, ', '.join(cparams), call))
        if rt[0] == 'builtin':
            return 'extern "C" %s %s(%s) {\n  return %s;\n}\n' % (rt[1].replace('_Bool', 'bool'), cname, ', '.join(cparams), call)
        raise LowerError('return type %r' % (rt,))

    def is_hidden_friend(self, n):
        """every declaration of the function is a friend declaration inside a class (none at namespace scope)"""
        first = self.func_first(n['id'])
        if (self.parent.get(first) or {}).get('kind') != 'FriendDecl':
            return False
        if not hasattr(self, '_redecls'):
            self._redecls = {}
            for nid, f in self.first_of.items():
                self._redecls.setdefault(f, []).append(nid)
        if not all((self.parent.get(x) or {}).get('kind') == 'FriendDecl' for x in self._redecls.get(first, []) + [first]):
            return False
        # ... and no function or function template of that name is declared at namespace scope (a qualified call then cannot
        # compile at all; where one exists the qualified form is kept as it was)
        if not hasattr(self, '_ns_func_names'):
            self._ns_func_names = set()
            for x in self.byid.values():
                if x.get('kind') in ('FunctionDecl', 'FunctionTemplateDecl') and x.get('name') and \
                        (self.parent.get(x.get('id')) or {}).get('kind') in ('NamespaceDecl', 'TranslationUnitDecl', 'LinkageSpecDecl'):
                    self._ns_func_names.add(x['name'])
        return n.get('name') not in self._ns_func_names

    def shim_forwarder(self, cname, first):
        """C++ definition of a body-less member (stub type declared in /verif/tu) forwarding to the C stub of the spec"""
        n = self.byid[first]
        ft = self.fn_types(n)
        pdecls = self.func_sig_params(n)
        scope = self.cpp_scope(n)
        static = self.is_static_method(n)
        ps = []
        cps = []
        cas = []
        if not static:
            cps.append('void*')
            cas.append('(void*)this')
        for i, (p, pt) in enumerate(zip(pdecls, ft[2])):
            cpp = self.cpp_type_of(p['type'])
            ps.append('%s a%d' % (cpp, i))
            if pt[0] in ('ref', 'rref'):
                cps.append('void*')
                cas.append('(void*)&a%d' % i)
            elif pt[0] == 'ptr':
                cps.append('void*')
                cas.append('(void*)a%d' % i)
            else:
                cps.append(cpp)
                cas.append('a%d' % i)
        rt = ft[1]
        if rt[0] not in ('builtin', 'ptr'):
            raise LowerError('forwarder return type %r' % (rt,))
        rts = rt[1].replace('_Bool', 'bool') if rt[0] == 'builtin' else 'void*'
        cv = ' const' if re.search(r'\)\s*const', n['type']['qualType']) else ''
        rcpp, _ = split_func_type(strip_sfinae(n['type']['qualType']))
        out = 'extern "C" %s %s(%s);\n' % (rts, cname, ', '.join(cps))
        out += '%s %s%s(%s)%s {\n  %s(%s)%s(%s);\n}\n' % (rcpp, scope, n['name'], ', '.join(ps), cv,
                                                            'return ' if rts != 'void' else '', rcpp if rts != 'void' else 'void', cname, ', '.join(cas))
        return out

    def emit_shim(self, opts):
        tu = opts.get('tu_include', 'all.cpp')
        out = ['// generated by ajlower: C-linkage entry points that call the REAL functions of /repo/src',
               '#include "%s"' % os.path.join(os.path.dirname(os.path.dirname(os.path.abspath(__file__))), 'tu', tu),
               '#include <new>', '']
        skipped = []
        todo = list(self.needed_funcs.items())
        # (functions stubbed by the unit although /repo defines them get no wrapper: the spec's stub is the definition)
        seen_cnames = set()
        for first, cname in todo:
            if cname in seen_cnames:
                continue   # const / non-const overloads of one member share a C name (and one lowered body)
            seen_cnames.add(cname)
            try:
                out.append(self.shim_wrapper(cname, first))
            except (LowerError, KeyError) as e:
                skipped.append('// no wrapper for %s: %s' % (cname, e))
        for first, cname in self.extern_funcs.items():
            n = self.byid[first]
            if first in self.body_of or n.get('virtual') or cname in LIBC or cname.startswith('__builtin_'):
                continue
            f = n.get('_file') or ''
            if '/tu/' in f:
                try:
                    out.append(self.shim_forwarder(cname, first))
                except (LowerError, KeyError) as e:
                    skipped.append('// no forwarder for %s: %s' % (cname, e))
        # every other body-less member of a stub type declared in /verif/tu must exist for the link: trap if reached
        done_fw = set(self.func_first(f) for f in self.extern_funcs)
        for nid, n in self.byid.items():
            if n.get('kind') == 'CXXMethodDecl' and '/tu/' in (n.get('_file') or '') and nid not in self.dependent \
                    and self.func_first(nid) == nid and nid not in self.body_of and nid not in done_fw and not n.get('isImplicit'):
                try:
                    ft = self.fn_types(n)
                    ps = ', '.join(self.cpp_type_of(p['type']) for p in self.func_sig_params(n))
                    rcpp, _ = split_func_type(strip_sfinae(n['type']['qualType']))
                    cv = ' const' if re.search(r'\)\s*const', n['type']['qualType']) else ''
                    out.append('%s %s%s(%s)%s { __builtin_trap(); }' % (rcpp, self.cpp_scope(n), n['name'], ps, cv))
                except (LowerError, KeyError) as e:
                    skipped.append('// no trap for %s: %s' % (n.get('name'), e))
        uses_alloc = any(self.byid[f].get('virtual') for f in self.extern_funcs)
        if uses_alloc:
            out.append('''extern "C" void* Allocator__allocate(void*, size_t);
extern "C" void Allocator__deallocate(void*, void*);
extern "C" void* Allocator__reallocate(void*, void*, size_t);
namespace { struct VerifAllocator : ArduinoJson::Allocator {
  void* allocate(size_t n) override { return Allocator__allocate(this, n); }
  void deallocate(void* p) override { Allocator__deallocate(this, p); }
  void* reallocate(void* p, size_t n) override { return Allocator__reallocate(this, p, n); }
}; }
extern "C" void* verif_allocator(int i) { static VerifAllocator a[4]; return &a[i & 3]; }
''')
        out.extend(skipped)
        return '\n'.join(out) + '\n'

    # ------------------------------------------------------------------ enum / constants
    def enum_const_value(self, c):
        # explicit value?
        for x in walk(c):
            if x.get('kind') == 'ConstantExpr' and 'value' in x:
                return int(x['value'])
        # implicit: previous + 1
        par = self.parent[c['id']]
        prev = None
        val = -1
        for s in par.get('inner', ()):
            if s.get('kind') != 'EnumConstantDecl':
                continue
            explicit = None
            for x in walk(s):
                if x is not s and x.get('kind') == 'ConstantExpr' and 'value' in x:
                    explicit = int(x['value'])
                    break
                if x is not s and x.get('kind') == 'IntegerLiteral':
                    explicit = None
            if explicit is not None:
                val = explicit
            elif any(isinstance(i, dict) for i in s.get('inner', ())):
                raise LowerError('enum constant %s has an initializer without evaluated value' % s.get('name'))
            else:
                val = val + 1
            if s['id'] == c['id']:
                return val
        raise LowerError('enum constant not found')


def _mask_ops(s):
    """replace comparison/shift operators (printed by clang with surrounding spaces) so that <> only mean template brackets"""
    return re.sub(r' (<<|>>|<=|>=|<|>) ', lambda m: ' ' + '\x01' * len(m.group(1)) + ' ', s)


def strip_sfinae(s):
    """rewrite enable_if_t<COND, T> to T (void when T is absent) inside a printed type"""
    guard = 0
    while guard < 50:
        guard += 1
        m = re.search(r'(?:typename\s+)?(?:[A-Za-z_][A-Za-z_0-9]*::)*enable_if_t\s*<', s)
        if not m:
            return s
        masked = _mask_ops(s)
        i = m.end()
        depth = 1
        pdepth = 0
        commas = []
        while i < len(masked) and depth > 0:
            ch = masked[i]
            if ch in '([':
                pdepth += 1
            elif ch in ')]':
                pdepth -= 1
            elif ch == '<':
                depth += 1
            elif ch == '>':
                depth -= 1
            elif ch == ',' and depth == 1 and pdepth == 0:
                commas.append(i)
            i += 1
        if depth != 0:
            return s
        end = i  # one past the closing '>'
        res = s[commas[-1] + 1:end - 1].strip() if commas else 'void'
        s = s[:m.start()] + res + s[end:]
    return s


def split_func_type(s):
    """'RET (PARAMS) quals' -> (RET, PARAMS); also 'auto (PARAMS) -> RET'"""
    s = s.strip()
    arrow = None
    # trailing return type
    depth = 0
    for i in range(len(s) - 1):
        ch = s[i]
        if ch in '([':
            depth += 1
        elif ch in ')]':
            depth -= 1
        elif depth == 0 and s.startswith(' -> ', i):
            arrow = i
            break
    tail = None
    if arrow is not None:
        tail = s[arrow + 4:]
        s = s[:arrow]
    s = re.sub(r'(\s+(const|volatile|noexcept(\([^)]*\))?|&&|&))+\s*$', '', s)
    if not s.endswith(')'):
        return None, None
    depth = 0
    i = len(s) - 1
    while i >= 0:
        if s[i] == ')':
            depth += 1
        elif s[i] == '(':
            depth -= 1
            if depth == 0:
                break
        i -= 1
    if i < 0:
        return None, None
    ret = s[:i].strip()
    params = s[i + 1:-1]
    if tail is not None:
        ret = tail.strip()
    return ret, params


def split_top_commas(s):
    out = []
    depth = 0
    cur = ''
    s = strip_sfinae(s)
    for ch in _mask_ops(s):
        if ch in '(<[':
            depth += 1
        elif ch in ')>]':
            depth -= 1
        if ch == ',' and depth == 0:
            out.append(cur.strip())
            cur = ''
        else:
            cur += ch
    if cur.strip() or out:
        out.append(cur.strip())
    return [x.replace('\x01', '?') for x in out]


def split_qname(q):
    parts = []
    depth = 0
    cur = ''
    i = 0
    while i < len(q):
        ch = q[i]
        if ch == '<':
            depth += 1
        elif ch == '>':
            depth -= 1
        if depth == 0 and q.startswith('::', i):
            parts.append(cur)
            cur = ''
            i += 2
            continue
        cur += ch
        i += 1
    parts.append(cur)
    return parts


C_KEYWORDS = {'restrict', 'auto', 'register', 'typeof', 'inline', 'asm', 'self'}


def cident(name):
    if name in C_KEYWORDS:
        return name + '_'
    return name


class FuncLowerer:
    def __init__(self, L, node, cname):
        self.L = L
        self.n = node
        self.cname = cname
        self.tmp_counter = 0
        self.block_tmps = []       # stack of lists of temp declarations
        self.loop_ord = 0
        self.renames = {}          # decl id -> C identifier
        self.ret_is_ref = False
        self.ret_type = None
        self.local_names = set()
        self.full_expr = None      # temporaries with non-trivial destructors of the full-expression being lowered

    # ---- helpers
    def err(self, msg, n=None):
        where = ''
        if n is not None:
            r = n.get('range', {}).get('begin', {})
            where = ' (node %s %s line %s)' % (n.get('kind'), n.get('id'), r.get('line'))
        raise LowerError('%s: %s%s' % (self.cname, msg, where))

    def new_tmp(self, ctype_tree):
        self.tmp_counter += 1
        name = '__t%d' % self.tmp_counter
        t = ctype_tree
        self.block_tmps[-1].append(self.L.cdecl(t, name) + ';')
        return name

    def ty(self, n):
        return self.L.rtype(n['type'])

    def kids(self, n):
        return [c for c in n.get('inner', ()) if isinstance(c, dict)]

    # ---- function
    def lower(self):
        L = self.L
        n = self.n
        first = L.byid[L.func_first(n['id'])]
        ft = L.fn_types(first)
        self.ret_type = ft[1]
        self.ret_is_ref = L.is_ref(ft[1])
        k = n.get('kind')
        proto = L.prototype(first, self.cname)
        for i, p in enumerate(L.func_sig_params(n)):
            if not p.get('name'):
                self.renames[p['id']] = '_p%d' % i
        body = None
        inits = []
        for c in self.kids(n):
            if c.get('kind') == 'CompoundStmt':
                body = c
            elif c.get('kind') == 'CXXCtorInitializer':
                inits.append(c)
        if body is None:
            self.err('no body')
        lines = []
        self.block_tmps.append([])
        pre = []
        if k == 'CXXConstructorDecl':
            rec = L.method_record(n)
            for ci in inits:
                pre.extend(self.lower_ctor_init(ci, rec))
        post = []
        if k == 'CXXDestructorDecl':
            rec = L.method_record(n)
            post = self.check_dtor_members(rec)
            if post and any(x.get('kind') == 'ReturnStmt' for x in walk(body)):
                self.err('destructor of %s returns early and has members with destructors' % rec)
        inner = self.lower_compound_items(body) + post
        tmps = self.block_tmps.pop()
        out = [proto, '{']
        out.extend('  ' + t for t in tmps)
        out.extend('  ' + s for s in pre)
        out.extend(indent(inner))
        out.append('}')
        lc = L.loop_contracts.get(self.cname, {})
        for o in lc:
            if int(o) >= self.loop_ord:
                raise LowerError('%s: loop contract for loop #%s but function has %d loops' % (self.cname, o, self.loop_ord))
        return '\n'.join(out) + '\n'

    def check_dtor_members(self, rec):
        """statements that run after the destructor body: the destructors of the non-static data members, in reverse order of
        declaration (members whose destructor is trivial or effectively empty need none)"""
        L = self.L
        n = L.records[rec]
        calls = []
        for f in L.record_fields(n):
            ft = L.rtype(f['type'])
            is_arr = ft[0] == 'arr'
            while ft[0] == 'arr':
                ft = ft[1]
            if ft[0] == 'rec' and self.nontrivial_dtor(ft[1]):
                # member destructors run after the body; nothing to emit if the member dtor body is effectively empty
                if not self.dtor_is_noop(ft[1]):
                    if is_arr or not f.get('name'):
                        self.err('destructor of %s must run member destructor of %s (array or unnamed member: not supported)' % (rec, ft[1]))
                    calls.append('%s(&self->%s);' % (self.dtor_cname(ft[1], 'member %s of %s' % (f['name'], rec)), f['name']))
        if calls:
            for b in L.record_bases(n):
                if self.nontrivial_dtor(b) and not self.dtor_is_noop(b):
                    self.err('destructor of %s must run base destructor of %s (not supported)' % (rec, b))
        calls.reverse()
        return calls

    def dtor_cname(self, rec, what):
        """C name of the destructor of record `rec` (user-provided, or implicit with a body synthesised by clang)"""
        L = self.L
        for c in L.records[rec].get('inner', ()):
            if isinstance(c, dict) and c.get('kind') == 'CXXDestructorDecl':
                if L.func_first(c['id']) not in L.body_of:
                    self.err('destructor of %s (%s) has no body in the AST' % (rec, what))
                cname = L.require(c['id'])
                L.call_edges.add((self.cname.split('/')[0], cname))
                return cname
        self.err('destructor of %s (%s) not found' % (rec, what))

    def nontrivial_dtor(self, rec):
        dd = self.L.records[rec].get('definitionData', {})
        d = dd.get('dtor', {})
        return bool(d.get('nonTrivial'))

    def dtor_is_noop(self, rec):
        """a user-declared destructor whose body contains only disabled asserts ((void)0) and whose members are trivial"""
        L = self.L
        n = L.records[rec]
        for c in n.get('inner', ()):
            if c.get('kind') == 'CXXDestructorDecl':
                d = L.body_of.get(L.func_first(c['id']))
                if d is None:
                    if c.get('explicitlyDefaulted') or c.get('isImplicit'):
                        break
                    return False
                for b in d.get('inner', ()):
                    if b.get('kind') == 'CompoundStmt':
                        for s in b.get('inner', ()):
                            if not self.is_void_zero(s):
                                return False
        for f in L.record_fields(n):
            ft = L.rtype(f['type'])
            while ft[0] == 'arr':
                ft = ft[1]
            if ft[0] == 'rec' and self.nontrivial_dtor(ft[1]) and not self.dtor_is_noop(ft[1]):
                return False
        for b in L.record_bases(n):
            if self.nontrivial_dtor(b) and not self.dtor_is_noop(b):
                return False
        return True

    def is_void_zero(self, s):
        k = s.get('kind')
        if k == 'NullStmt':
            return True
        if k == 'ParenExpr':
            return self.is_void_zero(s['inner'][0])
        if k == 'CStyleCastExpr' and s.get('castKind') == 'ToVoid':
            return s['inner'][0].get('kind') == 'IntegerLiteral'
        return False

    def lower_ctor_init(self, ci, rec):
        L = self.L
        out = []
        kids = self.kids(ci)
        if 'anyInit' in ci:
            f = ci['anyInit']
            fnode = L.byid[f['id']]
            ftype = L.rtype(fnode['type'])
            target = 'self->%s' % fnode['name']
            if not kids:
                self.err('ctor initializer without expression', ci)
            out.extend(self.init_object(target, ftype, kids[0], fnode))
        elif 'baseInit' in ci:
            bt = L.rtype(ci['baseInit'])
            if bt[0] != 'rec':
                self.err('base init of unknown record', ci)
            if L.record_is_empty(bt[1]):
                target = '(*(%s)self)' % L.cdecl(('ptr', bt), '')
            else:
                target = 'self->_b_%s' % sanitize(bt[1])
            out.extend(self.init_object(target, bt, kids[0]))
        elif 'delegatingInit' in ci:
            # T(args) : T(other args) { body }  ->  the target constructor runs on the same object, then the body
            dt = L.rtype(ci['delegatingInit'])
            if dt != ('rec', rec) or not kids or self.skip_cleanups(kids[0]).get('kind') != 'CXXConstructExpr':
                self.err('delegating constructor of unexpected shape', ci)
            out.extend(self.construct_into('self', self.skip_cleanups(kids[0])))
        else:
            self.err('unknown ctor initializer', ci)
        return out

    def init_object(self, target, ttype, e, field=None):
        """statements that initialise lvalue `target` (of resolved type ttype) from initializer expression e"""
        L = self.L
        e = self.skip_cleanups(e)
        k = e.get('kind')
        if k == 'CXXDefaultInitExpr':
            if field is None:
                self.err('CXXDefaultInitExpr for unknown field', e)
            ks = [c for c in self.kids(field) if c.get('kind') not in ('FullComment',)]
            if not ks:
                self.err('field %s has no default member initializer' % field.get('name'), e)
            return self.init_object(target, ttype, ks[0])
        if L.is_ref(ttype):
            return ['%s = %s;' % (target, self.addr_of(e))]
        if k in ('CXXConstructExpr', 'CXXTemporaryObjectExpr') and ttype[0] == 'rec':
            return self.construct_into('&' + paren(target), e)
        if ttype[0] == 'arr':
            if k == 'InitListExpr':
                out = []
                items = self.kids(e)
                filler = None
                if 'array_filler' in e:
                    af = e['array_filler']
                    items = [x for x in af if isinstance(x, dict) and x.get('kind') != 'ImplicitValueInitExpr'] if False else items
                n = ttype[2]
                for i, it in enumerate(items):
                    out.extend(self.init_object('%s[%d]' % (target, i), ttype[1], it))
                if n is not None and len(items) < n:
                    out.append('for (size_t __i = %d; __i < %d; __i++) memset(&%s[__i], 0, sizeof(%s[0]));' % (len(items), n, target, target))
                return out
            if k in ('CXXConstructExpr',) and ttype[1][0] == 'rec':
                # array of records default-constructed element-wise
                n = ttype[2]
                tmpi = '__i%d' % id(e)
                out = []
                for i in range(n):
                    out.extend(self.construct_into('&%s[%d]' % (target, i), e))
                return out
            if k == 'ImplicitValueInitExpr':
                return ['memset(%s, 0, sizeof(%s));' % (target, target)]
            if k == 'StringLiteral':
                return ['memcpy(%s, %s, sizeof(%s));' % (target, e['value'], target)]
            self.err('unsupported array initializer %s' % k, e)
        if k == 'InitListExpr' and ttype[0] == 'rec':
            return self.init_aggregate(target, ttype, e)
        if k == 'ImplicitValueInitExpr' and ttype[0] == 'rec':
            return ['memset(&%s, 0, sizeof(%s));' % (target, target)]
        return ['%s = %s;' % (target, self.rv(e))]

    def init_aggregate(self, target, ttype, e):
        L = self.L
        rec = L.records[ttype[1]]
        if rec.get('tagUsed') == 'union':
            f = e.get('field')
            items = self.kids(e)
            if f is None or not items:
                return ['memset(&%s, 0, sizeof(%s));' % (target, target)]
            fn = L.byid[f['id']]
            return self.init_object('%s.%s' % (target, fn['name']), L.rtype(fn['type']), items[0])
        fields = L.record_fields(rec)
        items = self.kids(e)
        bases = [b for b in L.record_bases(rec)]
        out = []
        idx = 0
        for b in bases:
            if idx >= len(items):
                break
            bt = ('rec', b)
            if L.record_is_empty(b):
                idx += 1
                continue
            out.extend(self.init_object('%s._b_%s' % (target, sanitize(b)), bt, items[idx]))
            idx += 1
        for f in fields:
            if idx >= len(items):
                self.err('aggregate initializer shorter than field list', e)
            out.extend(self.init_object('%s.%s' % (target, f['name']), L.rtype(f['type']), items[idx], f))
            idx += 1
        return out

    def default_init_expr(self, e):
        # CXXDefaultInitExpr: clang 14 JSON does not carry the field; locate through the enclosing ctor initializer
        self.err('CXXDefaultInitExpr outside constructor initializer', e)

    def skip_cleanups(self, e):
        while e.get('kind') in ('ExprWithCleanups', 'ConstantExpr', 'CXXBindTemporaryExpr', 'SubstNonTypeTemplateParmExpr') \
                and not (e.get('kind') == 'ConstantExpr' and False):
            if e.get('kind') == 'CXXBindTemporaryExpr':
                t = self.ty(e)
                if t[0] == 'rec' and self.nontrivial_dtor(t[1]) and not self.dtor_is_noop(t[1]):
                    if self.full_expr is None or e['id'] not in self.full_expr['allowed']:
                        self.err('temporary with non-trivial destructor', e)
                    self.full_expr['seen'].add(e['id'])
            ks = self.kids(e)
            if not ks:
                break
            e = ks[-1] if e.get('kind') == 'SubstNonTypeTemplateParmExpr' else ks[0]
        return e

    # ---- constructors
    def find_ctor(self, e):
        L = self.L
        t = self.ty(e)
        while t[0] == 'arr':
            t = t[1]
        if t[0] != 'rec':
            self.err('construct expression of non-record type %r' % (t,), e)
        rec = L.records[t[1]]
        wr, wp = split_func_type(e['ctorType']['qualType'])
        wps = [x for x in split_top_commas(wp) if x not in ('', 'void')]
        wanted = ','.join(L.type_name(('ptr', p[1]) if p[0] == 'arr' else p) for p in (L.rtype_s(x) for x in wps))
        cands = []

        def scan(n):
            for c in n.get('inner', ()):
                if not isinstance(c, dict):
                    continue
                if c.get('kind') == 'CXXConstructorDecl' and c['id'] not in L.dependent:
                    ft = L.fn_types(c)
                    s = ','.join(L.type_name(p) for p in ft[2])
                    if s == wanted:
                        cands.append(c)
                elif c.get('kind') == 'FunctionTemplateDecl':
                    scan(c)
        scan(rec)
        if not cands:
            self.err('constructor %s of %s not found' % (e['ctorType']['qualType'], t[1]), e)
        # prefer one with a body
        firsts = []
        for c in cands:
            f = L.func_first(c['id'])
            if f not in firsts:
                firsts.append(f)
        withbody = [f for f in firsts if f in L.body_of]
        pick = withbody[0] if withbody else firsts[0]
        return t[1], L.byid[pick]

    def ctor_is_trivial_copy(self, recname, ctor, e):
        L = self.L
        ft = L.fn_types(ctor)
        if len(ft[2]) != 1:
            return False
        p = ft[2][0]
        if not (L.is_ref(p) and p[1] == ('rec', recname)):
            return False
        if not (ctor.get('isImplicit') or ctor.get('explicitlyDefaulted') == 'default'):
            return False
        dd = L.records[recname].get('definitionData', {})
        key = 'moveCtor' if p[0] == 'rref' else 'copyCtor'
        if dd.get(key, {}).get('trivial') or dd.get('isTriviallyCopyable'):
            return True
        # implicit member-wise copy of a record whose members are all trivially copyable
        return self.memberwise_trivial(recname)

    def memberwise_trivial(self, recname):
        L = self.L
        n = L.records[recname]
        for f in L.record_fields(n):
            ft = L.rtype(f['type'])
            while ft[0] == 'arr':
                ft = ft[1]
            if ft[0] == 'rec':
                dd = L.records[ft[1]].get('definitionData', {})
                if not (dd.get('isTriviallyCopyable') or dd.get('copyCtor', {}).get('trivial')):
                    if not self.memberwise_trivial(ft[1]):
                        return False
        for b in L.record_bases(n):
            dd = L.records[b].get('definitionData', {})
            if not (dd.get('isTriviallyCopyable') or dd.get('copyCtor', {}).get('trivial') or dd.get('isEmpty')):
                return False
        # user-provided copy ctor?
        for c in n.get('inner', ()):
            if c.get('kind') == 'CXXConstructorDecl' and not c.get('isImplicit') and c.get('explicitlyDefaulted') != 'default':
                ft = L.fn_types(c)
                if len(ft[2]) == 1 and L.is_ref(ft[2][0]) and ft[2][0][1] == ('rec', recname):
                    return False
        return True

    def ctor_is_trivial_default(self, recname, ctor):
        L = self.L
        ft = L.fn_types(ctor)
        if ft[2]:
            return False
        dd = L.records[recname].get('definitionData', {})
        return bool(dd.get('defaultCtor', {}).get('trivial')) and (ctor.get('isImplicit') or ctor.get('explicitlyDefaulted') == 'default')

    def construct_into(self, ptr, e):
        """statements constructing an object at C pointer expression `ptr` from CXXConstructExpr e"""
        L = self.L
        recname, ctor = self.find_ctor(e)
        args = self.kids(e)
        if self.ctor_is_trivial_copy(recname, ctor, e):
            return ['*%s = %s;' % (paren(ptr), self.rv(args[0]))]
        if self.ctor_is_trivial_default(recname, ctor):
            if e.get('zeroing'):
                return ['memset(%s, 0, sizeof(*%s));' % (ptr, paren(ptr))]
            return []
        out = []
        if e.get('zeroing'):
            out.append('memset(%s, 0, sizeof(*%s));' % (ptr, paren(ptr)))
        if ctor.get('isImplicit') and L.func_first(ctor['id']) not in L.body_of:
            # implicit non-trivial default ctor never defined by clang (unused): cannot lower
            self.err('implicit constructor of %s has no body in the AST' % recname, e)
        cname = L.require(ctor['id'])
        cargs = self.call_args(ctor, args)
        out.append('%s(%s);' % (cname, ', '.join([ptr] + cargs)))
        return out

    def construct_value(self, e):
        """C expression (prvalue) for a CXXConstructExpr-like e"""
        L = self.L
        recname, ctor = self.find_ctor(e)
        args = self.kids(e)
        if self.ctor_is_trivial_copy(recname, ctor, e):
            return self.rv(args[0])
        t = self.ty(e)
        tmp = self.new_tmp(t)
        stmts = self.construct_into('&' + tmp, e)
        if not stmts:
            return tmp
        exprs = [s.rstrip(';') for s in stmts]
        return '(%s, %s)' % (', '.join(exprs), tmp)

    # ---- calls
    def call_args(self, callee, args):
        """lower call arguments according to callee's parameter types (references -> addresses)"""
        L = self.L
        ft = L.fn_types(L.byid[L.func_first(callee['id'])])
        ptypes = ft[2]
        out = []
        d = L.body_of.get(L.func_first(callee['id']), callee)
        pdecls = L.func_sig_params(d)
        first_decl_params = L.func_sig_params(L.byid[L.func_first(callee['id'])])
        for i, a in enumerate(args):
            if i >= len(ptypes):
                if ft[3]:
                    out.append(self.rv(a))
                    continue
                self.err('too many arguments for %s' % callee.get('name'), a)
            pt = ptypes[i]
            if a.get('kind') == 'CXXDefaultArgExpr':
                a = self.default_arg(callee, i, a)
            if L.is_ref(pt):
                out.append(self.addr_of(a))
            elif L.by_invisible_ref(pt):
                out.append(self.invisible_ref_arg(a, pt))
            else:
                out.append(self.rv(a))
        if len(args) < len(ptypes):
            self.err('missing arguments for %s' % callee.get('name'))
        return out

    def invisible_ref_arg(self, a, pt):
        """argument for a by-value parameter passed by invisible reference: the parameter object is constructed by the caller
        in a temporary, its address is passed, and it is destroyed at the end of the full-expression"""
        fe = self.full_expr
        if a.get('kind') != 'CXXBindTemporaryExpr' or fe is None or a['id'] not in fe['allowed']:
            self.err('by-value argument of class type %s (non-trivial copy/destructor) outside a supported full-expression' % pt[1], a)
        sub = self.kids(a)[0]
        if sub.get('kind') not in ('CXXConstructExpr', 'CXXTemporaryObjectExpr'):
            self.err('by-value argument of class type %s is not a constructor call' % pt[1], a)
        tmp = self.new_tmp(pt)
        stmts = [x.rstrip(';') for x in self.construct_into('&' + tmp, sub)]
        fe['seen'].add(a['id'])
        self.register_temp_dtor(a, pt[1], tmp)
        return '(%s)' % ', '.join(stmts + ['&' + tmp])

    # ---- temporaries of class types with non-trivial destructors (restricted form)
    def begin_full_expr(self, e):
        """e: the expression of an expression statement or the initialiser of a local variable. Temporaries with non-trivial
        destructors that are created UNCONDITIONALLY inside it are destroyed right after the statement, in reverse order of
        construction; any other position of such a temporary keeps aborting the lowering."""
        if e.get('kind') != 'ExprWithCleanups' or self.full_expr is not None:
            return False
        allowed = set()

        def scan(x, cond):
            k = x.get('kind')
            if k in ('LambdaExpr', 'StmtExpr'):
                return
            if k == 'CXXBindTemporaryExpr' and not cond:
                allowed.add(x['id'])
            for i, c in enumerate(self.kids(x)):
                c_cond = cond or (k in ('ConditionalOperator', 'BinaryConditionalOperator') and i > 0) or \
                    (k == 'BinaryOperator' and x.get('opcode') in ('&&', '||') and i > 0)
                scan(c, c_cond)
        scan(e, False)
        self.full_expr = {'allowed': allowed, 'seen': set(), 'registered': set(), 'dtors': []}
        return True

    def end_full_expr(self):
        fe = self.full_expr
        self.full_expr = None
        if fe['seen'] - fe['registered']:
            self.err('temporary with non-trivial destructor in an unsupported position')
        return list(reversed(fe['dtors']))

    def register_temp_dtor(self, bind, rec, tmp):
        fe = self.full_expr
        fe['dtors'].append('%s(&%s);' % (self.dtor_cname(rec, 'temporary'), tmp))
        fe['registered'].add(bind['id'])

    def default_arg(self, callee, i, a):
        L = self.L
        # search all redeclarations for a ParmVarDecl with an init
        first = L.func_first(callee['id'])
        for nid, n in L.byid.items():
            if n.get('kind') in FUNC_KINDS and L.first_of.get(nid) == first:
                ps = L.func_sig_params(n)
                if i < len(ps):
                    ks = [c for c in ps[i].get('inner', ()) if isinstance(c, dict)]
                    if ks:
                        return ks[0]
        self.err('default argument %d of %s not found' % (i, callee.get('name')), a)

    def callee_decl(self, e):
        """(decl node, object expr or None, isArrow) for the callee sub-expression of a call"""
        L = self.L
        while e.get('kind') in ('ImplicitCastExpr', 'ParenExpr'):
            e = self.kids(e)[0]
        k = e.get('kind')
        if k == 'DeclRefExpr':
            d = e['referencedDecl']
            return L.byid.get(d['id'], d), None, False
        if k == 'MemberExpr':
            d = L.byid.get(e['referencedMemberDecl'])
            if d is None:
                self.err('member decl not found', e)
            return d, self.kids(e)[0], e.get('isArrow')
        self.err('unsupported callee expression %s' % k, e)

    def lower_call(self, e):
        L = self.L
        kids = self.kids(e)
        k = e.get('kind')
        callee, obj, arrow = self.callee_decl(kids[0])
        args = kids[1:]
        if callee.get('kind') not in FUNC_KINDS:
            self.err('call through non-function %s' % callee.get('kind'), e)
        cargs = []
        first = L.byid[L.func_first(callee['id'])]
        static = L.is_static_method(first)
        if k == 'CXXOperatorCallExpr' and not static:
            obj = args[0]
            args = args[1:]
            arrow = False
        if not static:
            if obj is None:
                self.err('member call without object', e)
            if arrow:
                cargs.append(self.rv(obj))
            else:
                cargs.append(self.addr_of(obj))
            # adjust to the method's class when called through a derived object
            mrec = L.method_record(first)
            ot = self.ty(obj)
            if arrow and ot[0] == 'ptr':
                ot = ot[1]
            ot = L.strip_ref(ot)
            if ot[0] == 'rec' and ot[1] != mrec:
                cargs[0] = '((%s)%s)' % (L.cdecl(('ptr', ('rec', mrec)), ''), cargs[0])
        elif obj is not None:
            pass  # static method called through an object: object expression has no effect in this code base
        # trivial implicit copy/move assignment
        if first.get('kind') == 'CXXMethodDecl' and first.get('name') == 'operator=' and \
                (first.get('isImplicit') or first.get('explicitlyDefaulted') == 'default') and L.func_first(first['id']) not in L.body_of:
            return '(*%s = %s)' % (paren(cargs[0]), self.rv(args[0])), True
        # implicit copy/move assignment of a UNION: clang synthesises a body that assigns no member (`return *this;`) because
        # code generation copies the object representation of a trivially-assignable union; lowering that body would drop the copy
        if first.get('kind') == 'CXXMethodDecl' and first.get('name') == 'operator=' and \
                (first.get('isImplicit') or first.get('explicitlyDefaulted') == 'default') and not static:
            mrec_u = L.method_record(first)
            if mrec_u is not None and L.records[mrec_u].get('tagUsed') == 'union':
                ddu = L.records[mrec_u].get('definitionData', {})
                pu = L.fn_types(first)[2]
                keyu = 'moveAssign' if (pu and pu[0][0] == 'rref') else 'copyAssign'
                if not ddu.get(keyu, {}).get('trivial'):
                    self.err('non-trivial implicit assignment of union %s' % mrec_u, e)
                return '(*%s = %s)' % (paren(cargs[0]), self.rv(args[0])), True
        cname = L.require(callee['id'])
        L.call_edges.add((self.cname.split('/')[0], cname))
        if cname in LIBC or cname.startswith('__builtin_'):
            return '%s(%s)' % (cname, ', '.join(self.rv(a) for a in args)), False
        cargs.extend(self.call_args(first, args))
        ft = L.fn_types(first)
        call = '%s(%s)' % (cname, ', '.join(cargs))
        if L.is_ref(ft[1]):
            return '(*%s)' % call, True
        return call, False

    # ---- expressions
    def rv(self, e):
        """C expression for the value of e"""
        s, _ = self.expr(e)
        return s

    def addr_of(self, e):
        """C expression for the address of glvalue e (materialising prvalues)"""
        e2 = self.skip_cleanups(e)
        vc = e2.get('valueCategory')
        s, is_l = self.expr(e2)
        if vc == 'prvalue' and e2.get('kind') != 'MaterializeTemporaryExpr':
            # binding a reference directly to a prvalue (clang normally materialises)
            t = self.ty(e2)
            tmp = self.new_tmp(t)
            return '(%s = %s, &%s)' % (tmp, s, tmp)
        if s.startswith('(*') and s.endswith(')') and balanced(s[2:-1]):
            return s[2:-1]
        return '&' + paren(s)

    def expr(self, e):
        """returns (C text, is_lvalue_text)"""
        k = e.get('kind')
        m = getattr(self, 'e_' + k, None)
        if m is None:
            self.err('unsupported expression kind %s' % k, e)
        r = m(e)
        if isinstance(r, tuple):
            return r
        return r, e.get('valueCategory') in ('lvalue', 'xvalue')

    def e_ParenExpr(self, e):
        s, l = self.expr(self.kids(e)[0])
        return '(%s)' % s if not (s.startswith('(') and balanced(s[1:-1]) and s.endswith(')')) else s, l

    def e_ExprWithCleanups(self, e):
        return self.expr(self.kids(e)[0])

    def e_ConstantExpr(self, e):
        ks = self.kids(e)
        t = self.ty(e)
        if 'value' in e and t[0] in ('builtin', 'enum') and re.fullmatch(r'-?\d+', str(e['value'])):
            return self.int_const(int(e['value']), t), False
        return self.expr(ks[0])

    def e_SubstNonTypeTemplateParmExpr(self, e):
        return self.expr(self.kids(e)[-1])

    def e_CXXBindTemporaryExpr(self, e):
        e2 = self.skip_cleanups(e)
        return self.expr(e2)

    def int_const(self, v, t):
        ct = self.L.cdecl(t, '')
        if ct == '_Bool':
            return '1' if v else '0'
        suffix = ''
        if v > 2147483647 or v < -2147483648:
            suffix = 'LL' if v < 0 or v <= 9223372036854775807 else 'ULL'
            if v > 9223372036854775807:
                suffix = 'ULL'
        if v == -9223372036854775808:
            return '((%s)(-9223372036854775807LL - 1))' % ct
        return '((%s)%d%s)' % (ct, v, suffix)

    def e_IntegerLiteral(self, e):
        v = int(e['value'])
        t = self.ty(e)
        ct = self.L.cdecl(t, '')
        suf = {'int': '', 'unsigned int': 'U', 'long': 'L', 'unsigned long': 'UL', 'long long': 'LL', 'unsigned long long': 'ULL'}.get(ct)
        if suf is None:
            return self.int_const(v, t)
        return '%d%s' % (v, suf)

    def e_CharacterLiteral(self, e):
        v = int(e['value'])
        t = self.ty(e)
        return '((%s)%d)' % (self.L.cdecl(t, ''), v)

    def e_CXXBoolLiteralExpr(self, e):
        return '1' if e['value'] else '0'

    def e_FloatingLiteral(self, e):
        v = e['value']
        t = self.ty(e)
        ct = self.L.cdecl(t, '')
        s = str(v)
        if re.fullmatch(r'-?\d+', s):
            s += '.0'
        if ct == 'float':
            s += 'f'
        elif ct == 'long double':
            s += 'L'
        return s

    def e_StringLiteral(self, e):
        return e['value'], True

    def e_CXXNullPtrLiteralExpr(self, e):
        return '((void*)0)'

    def e_GNUNullExpr(self, e):
        return '((void*)0)'

    def e_CXXThisExpr(self, e):
        return 'self'

    def e_CXXScalarValueInitExpr(self, e):
        t = self.ty(e)
        return '((%s)0)' % self.L.cdecl(t, '')

    def e_ImplicitValueInitExpr(self, e):
        t = self.ty(e)
        if t[0] in ('builtin', 'enum', 'ptr'):
            return '((%s)0)' % self.L.cdecl(t, '')
        tmp = self.new_tmp(t)
        return '(memset(&%s, 0, sizeof(%s)), %s)' % (tmp, tmp, tmp)

    def e_DeclRefExpr(self, e):
        L = self.L
        d = e['referencedDecl']
        dk = d.get('kind')
        full = L.byid.get(d['id'], d)
        if dk in ('VarDecl', 'ParmVarDecl'):
            return self.var_ref(full, e)
        if dk == 'EnumConstantDecl':
            v = L.enum_const_value(full)
            return self.int_const(v, self.ty(e)), False
        if dk in FUNC_KINDS:
            return L.require(d['id']), False
        if dk == 'NonTypeTemplateParmDecl':
            self.err('unsubstituted template parameter', e)
        if dk == 'BindingDecl':
            self.err('structured binding', e)
        self.err('DeclRefExpr to %s' % dk, e)

    def var_ref(self, d, e):
        L = self.L
        t = L.rtype(d['type'])
        nid = d['id']
        if nid in self.renames:
            name = self.renames[nid]
        else:
            par = L.parent.get(nid)
            is_local = self.is_local_decl(d)
            if is_local:
                name = cident(d['name'])
            else:
                name = self.global_const(d)
                return name, False
        if L.is_ref(t):
            return '(*%s)' % name, True
        if d.get('kind') == 'ParmVarDecl' and L.by_invisible_ref(t):
            return '(*%s)' % name, True
        return name, True

    def is_local_decl(self, d):
        L = self.L
        if d.get('kind') == 'ParmVarDecl':
            return True
        p = L.parent.get(d['id'])
        while p is not None:
            if p.get('kind') in FUNC_KINDS:
                return True
            if p.get('kind') in RECORD_KINDS or p.get('kind') in ('NamespaceDecl', 'TranslationUnitDecl'):
                return False
            p = L.parent.get(p.get('id'))
        return False

    def global_const(self, d):
        """namespace-scope or static-member constant -> macro with the lowered initializer"""
        L = self.L
        # find the declaration that carries the initializer
        cand = d
        if not [c for c in d.get('inner', ()) if isinstance(c, dict) and c.get('kind') not in ('FullComment',)]:
            first = d['id']
            for nid, n in L.byid.items():
                if n.get('kind') == 'VarDecl' and n.get('previousDecl') == first and n.get('inner'):
                    cand = n
                    break
        qn = L.qname(d)
        cname = sanitize(qn)
        if cname in L.const_macros:
            return cname
        t = L.rtype(d['type'])
        ks = [c for c in cand.get('inner', ()) if isinstance(c, dict) and c.get('kind') != 'FullComment']
        if not ks:
            raise LowerError('%s: global %s has no initializer in this TU (mutable or extern state?)' % (self.cname, qn))
        if not (d.get('constexpr') or (d.get('type', {}).get('qualType', '').startswith('const ')) or 'const ' in d.get('type', {}).get('qualType', '')):
            raise LowerError('%s: reference to non-const global %s' % (self.cname, qn))
        if t[0] == 'arr' or t[0] == 'rec':
            raise LowerError('%s: global aggregate constant %s not supported' % (self.cname, qn))
        L.const_macros[cname] = None  # cycle guard
        sub = FuncLowerer(L, self.n, self.cname + '/' + cname)
        sub.block_tmps.append([])
        val = sub.rv(ks[0])
        if sub.block_tmps[-1]:
            raise LowerError('%s: initializer of %s needs temporaries' % (self.cname, qn))
        L.const_macros[cname] = '#define %s ((%s)%s)' % (cname, L.cdecl(t, ''), val)
        L.const_order.append(cname)
        return cname

    def e_MemberExpr(self, e):
        L = self.L
        base = self.kids(e)[0]
        d = L.byid.get(e['referencedMemberDecl'])
        if d is None:
            self.err('member decl not found', e)
        dk = d.get('kind')
        if dk == 'VarDecl':
            return self.var_ref(d, e)
        if dk in FUNC_KINDS:
            self.err('bound member function outside call', e)
        if dk != 'FieldDecl':
            self.err('member of kind %s' % dk, e)
        name = d.get('name') or ''
        if e.get('isArrow'):
            b = self.rv(base)
            s = '%s->%s' % (paren(b), name) if name else '(*%s)' % paren(b)
        else:
            b, _ = self.expr(base)
            s = '%s.%s' % (paren(b), name) if name else b
        ft = L.rtype(d['type'])
        if L.is_ref(ft):
            return '(*%s)' % s, True
        return s, True

    def e_ArraySubscriptExpr(self, e):
        a, i = self.kids(e)
        return '%s[%s]' % (paren(self.rv(a)), self.rv(i)), True

    def e_UnaryOperator(self, e):
        op = e['opcode']
        sub = self.kids(e)[0]
        if op == '&':
            st = self.skip_cleanups(sub)
            if st.get('kind') == 'DeclRefExpr' and st['referencedDecl'].get('kind') in FUNC_KINDS:
                self.err('address of function', e)
            return self.addr_of(sub), False
        if op == '*':
            return '(*%s)' % paren(self.rv(sub)), True
        if op in ('++', '--'):
            s, _ = self.expr(sub)
            if e.get('isPostfix'):
                return '(%s%s)' % (paren(s), op), False
            # prefix yields an lvalue in C++
            if e.get('valueCategory') == 'lvalue':
                return '(*(%s%s, &%s))' % (op, paren(s), paren(s)), True
            return '(%s%s)' % (op, paren(s)), False
        if op in ('-', '+', '!', '~'):
            return '(%s%s)' % (op, paren(self.rv(sub))), False
        if op == '__extension__':
            return self.expr(sub)
        self.err('unary operator %s' % op, e)

    def e_BinaryOperator(self, e):
        op = e['opcode']
        l, r = self.kids(e)
        if op in ('.*', '->*'):
            self.err('pointer to member', e)
        if op == '=':
            ls, _ = self.expr(l)
            s = '(%s = %s)' % (ls, self.rv(r))
            if e.get('valueCategory') == 'lvalue':
                return s, False  # used as value only (C: assignment is not an lvalue)
            return s, False
        if op == ',':
            return '(%s, %s)' % (self.rv(l), self.rv(r)), False
        if op == '<<':
            t = self.ty(e)
            if t[0] == 'builtin' and t[1] in ('int', 'long', 'long long'):
                self.L.signed_shl_used.add(t[1])
                return 'AJ_SHL_%s(%s, %s)' % (t[1].replace(' ', ''), self.rv(l), self.rv(r)), False
        return '(%s %s %s)' % (self.rv(l), op, self.rv(r)), False

    def e_CompoundAssignOperator(self, e):
        op = e['opcode']
        l, r = self.kids(e)
        ls, _ = self.expr(l)
        # C++ computes in computeResultType then converts; C does the same with usual arithmetic conversions
        return '(%s %s %s)' % (ls, op, self.rv(r)), False

    def e_ConditionalOperator(self, e):
        c, a, b = self.kids(e)
        if e.get('valueCategory') in ('lvalue', 'xvalue'):
            return '(*(%s ? %s : %s))' % (self.rv(c), self.addr_of(a), self.addr_of(b)), True
        return '(%s ? %s : %s)' % (self.rv(c), self.rv(a), self.rv(b)), False

    def cast(self, e):
        L = self.L
        ck = e.get('castKind')
        sub = self.kids(e)[0]
        t = self.ty(e)
        if ck in ('LValueToRValue', 'NoOp', 'ArrayToPointerDecay', 'FunctionToPointerDecay', 'ConstructorConversion',
                  'UserDefinedConversion', 'BuiltinFnToFnPtr'):
            s, l = self.expr(sub)
            if ck in ('LValueToRValue',):
                sk = self.skip_cleanups(sub)
                while sk.get('kind') == 'ParenExpr':
                    sk = self.kids(sk)[0]
                if sk.get('kind') == 'MemberExpr':
                    fd = L.byid.get(sk.get('referencedMemberDecl'))
                    if fd is not None and fd.get('kind') == 'FieldDecl' and L.unified_ptr_field(fd):
                        return '((%s)%s)' % (L.cdecl(t, ''), s), False
                return s, False
            if ck == 'ArrayToPointerDecay':
                return s, False
            return s, l
        if ck == 'FloatingToIntegral' and t[0] == 'builtin':
            return 'AJ_FLOAT_TO_INT(%s, %s)' % (L.cdecl(t, ''), self.rv(sub)), False
        if ck in ('IntegralCast', 'IntegralToBoolean', 'FloatingToIntegral', 'IntegralToFloating', 'FloatingCast',
                  'PointerToBoolean', 'FloatingToBoolean', 'BooleanToSignedIntegral', 'IntegralToPointer', 'PointerToIntegral'):
            return '((%s)%s)' % (L.cdecl(t, ''), self.rv(sub)), False
        if ck == 'BitCast':
            return '((%s)%s)' % (L.cdecl(t, ''), self.rv(sub)), False
        if ck == 'NullToPointer':
            return '((%s)0)' % L.cdecl(t, ''), False
        if ck == 'ToVoid':
            return '((void)%s)' % self.rv(sub), False
        if ck == 'LValueBitCast':
            return '(*(%s)%s)' % (L.cdecl(('ptr', L.strip_ref(t)), ''), self.addr_of(sub)), True
        if ck in ('DerivedToBase', 'UncheckedDerivedToBase'):
            st = self.ty(sub)
            is_ptr = st[0] == 'ptr'
            cur = st[1] if is_ptr else L.strip_ref(st)
            s = self.rv(sub) if is_ptr else self.addr_of(sub)
            for p in e.get('path', ()):
                bname = self.base_from_path(cur, p['name'])
                if L.record_is_empty(bname):
                    s = '((%s)%s)' % (L.cdecl(('ptr', ('rec', bname)), ''), s)
                else:
                    self.check_base_offset0_or_member(cur[1], bname)
                    s = '(&%s->_b_%s)' % (paren(s), sanitize(bname))
                cur = ('rec', bname)
            if is_ptr:
                return s, False
            return '(*%s)' % s, True
        if ck == 'BaseToDerived':
            st = self.ty(sub)
            is_ptr = st[0] == 'ptr'
            tt = t[1] if is_ptr else L.strip_ref(t)
            # only valid when the base sub-object is at offset 0 (first non-empty base or empty base)
            cur = tt
            for p in reversed(e.get('path', ())):
                pass
            self.check_base_to_derived(tt, st[1] if is_ptr else L.strip_ref(st), e)
            if is_ptr:
                return '((%s)%s)' % (L.cdecl(('ptr', tt), ''), self.rv(sub)), False
            return '(*(%s)%s)' % (L.cdecl(('ptr', tt), ''), self.addr_of(sub)), True
        self.err('cast kind %s' % ck, e)

    def base_from_path(self, cur, name):
        L = self.L
        if cur[0] != 'rec':
            raise LowerError('%s: base path on non-record' % self.cname)
        for b in L.record_bases(L.records[cur[1]]):
            if b == name or b.split('::')[-1] == name or split_qname(b)[-1].split('<')[0] == name.split('<')[0]:
                return b
        raise LowerError('%s: base %s of %s not found' % (self.cname, name, cur[1]))

    def check_base_offset0_or_member(self, rec, base):
        return True

    def check_base_to_derived(self, derived, base, e):
        L = self.L
        # walk first-base chain from derived: base must be reachable at offset 0
        cur = derived
        seen = 0
        while cur[0] == 'rec' and seen < 16:
            if cur == base:
                return
            bases = L.record_bases(L.records[cur[1]])
            if not bases:
                break
            nonempty = [b for b in bases if not L.record_is_empty(b)]
            # empty bases live at offset 0 too
            for b in bases:
                if ('rec', b) == base and (L.record_is_empty(b) or (nonempty and nonempty[0] == b)):
                    if L.records[cur[1]].get('definitionData', {}).get('isPolymorphic') and not L.records[b].get('definitionData', {}).get('isPolymorphic'):
                        self.err('base-to-derived cast across a vptr', e)
                    return
            cur = ('rec', nonempty[0]) if nonempty else ('rec', bases[0])
            seen += 1
        self.err('base-to-derived cast where base is not at offset 0', e)

    e_ImplicitCastExpr = cast
    e_CStyleCastExpr = cast
    e_CXXStaticCastExpr = cast
    e_CXXReinterpretCastExpr = cast
    e_CXXConstCastExpr = cast

    def e_CXXFunctionalCastExpr(self, e):
        return self.cast(e)

    def e_MaterializeTemporaryExpr(self, e):
        raw = self.kids(e)[0]
        sub = self.skip_cleanups(raw)
        t = self.L.strip_ref(self.ty(e))
        if t[0] == 'arr':
            self.err('array temporary', e)
        k = sub.get('kind')
        bind = None  # the temporary has a non-trivial destructor that must run at the end of the full-expression
        if raw.get('kind') == 'CXXBindTemporaryExpr' and self.full_expr is not None and raw['id'] in self.full_expr['seen'] \
                and self.kids(raw)[0] is sub:
            bind = raw
        if k in ('CXXConstructExpr', 'CXXTemporaryObjectExpr'):
            recname, ctor = self.find_ctor(sub)
            if not self.ctor_is_trivial_copy(recname, ctor, sub):
                tmp = self.new_tmp(t)
                if bind is not None and t[0] == 'rec':
                    self.register_temp_dtor(bind, t[1], tmp)
                stmts = [s.rstrip(';') for s in self.construct_into('&' + tmp, sub)]
                if not stmts:
                    return tmp, True
                return '(*(%s, &%s))' % (', '.join(stmts), tmp), True
        tmp = self.new_tmp(t)
        return '(*(%s = %s, &%s))' % (tmp, self.rv(sub), tmp), True

    def e_CXXConstructExpr(self, e):
        return self.construct_value(e), False

    e_CXXTemporaryObjectExpr = e_CXXConstructExpr

    def e_InitListExpr(self, e):
        t = self.ty(e)
        if t[0] == 'rec':
            tmp = self.new_tmp(t)
            stmts = [s.rstrip(';') for s in self.init_aggregate(tmp, t, e)]
            if not stmts:
                stmts = ['memset(&%s, 0, sizeof(%s))' % (tmp, tmp)]
            return '(%s, %s)' % (', '.join(stmts), tmp), False
        ks = self.kids(e)
        if len(ks) == 1 and t[0] in ('builtin', 'enum', 'ptr'):
            return self.rv(ks[0]), False
        if not ks and t[0] in ('builtin', 'enum', 'ptr'):
            return '((%s)0)' % self.L.cdecl(t, ''), False
        self.err('InitListExpr of type %r in expression context' % (t,), e)

    def e_CallExpr(self, e):
        return self.lower_call(e)

    e_CXXMemberCallExpr = e_CallExpr
    e_CXXOperatorCallExpr = e_CallExpr

    def e_UnaryExprOrTypeTraitExpr(self, e):
        name = e.get('name')
        if name not in ('sizeof', 'alignof'):
            self.err('type trait %s' % name, e)
        kw = 'sizeof' if name == 'sizeof' else '_Alignof'
        if 'argType' in e:
            t = self.L.rtype(e['argType'])
            if self.L.is_ref(t):
                t = t[1]
            return '%s(%s)' % (kw, self.L.cdecl(t, '')), False
        sub = self.kids(e)[0]
        save = self.block_tmps[-1][:]
        s, _ = self.expr(sub)
        return '%s(%s)' % (kw, s), False

    def e_CXXNewExpr(self, e):
        L = self.L
        if not e.get('isPlacement'):
            self.err('non-placement new', e)
        if e.get('isArray'):
            self.err('array new', e)
        ks = self.kids(e)
        # children: [placement args..., initializer?]; the constructor expression (if any) is the child of record type
        t = self.ty(e)  # pointer to T
        place = None
        init = None
        for c in ks:
            ct = None
            if c.get('kind') in ('CXXConstructExpr',) or (c.get('kind') == 'InitListExpr'):
                init = c
            elif place is None:
                place = c
            else:
                init = c
        if place is None:
            self.err('placement new without placement argument', e)
        p = self.new_tmp(t)
        parts = ['%s = (%s)%s' % (p, L.cdecl(t, ''), self.rv(place))]
        if init is not None:
            if init.get('kind') == 'CXXConstructExpr':
                parts.extend(s.rstrip(';') for s in self.construct_into(p, init))
            else:
                parts.extend(s.rstrip(';') for s in self.init_object('(*%s)' % p, t[1], init))
        parts.append(p)
        return '(%s)' % ', '.join(parts), False

    def e_CXXDefaultArgExpr(self, e):
        self.err('default argument outside call', e)

    def e_TypeTraitExpr(self, e):
        if 'value' in e:
            return '1' if e['value'] else '0'
        self.err('type trait without value', e)

    def e_CXXNoexceptExpr(self, e):
        return ('1' if e.get('value') else '0'), False

    def e_OffsetOfExpr(self, e):
        # clang's JSON carries no operands for offsetof: read them from the source text at the expansion location
        f, off = e.get('_file'), e.get('_offset')
        if not f or off is None:
            self.err('offsetof without source location', e)
        src = self.L.source(f)
        m = re.match(r'(?:offsetof|__builtin_offsetof)\s*\(\s*([A-Za-z_][A-Za-z_0-9:]*)\s*,\s*([A-Za-z_][A-Za-z_0-9]*)\s*\)', src[off:off + 200].decode('latin-1'))
        if not m:
            self.err('cannot read offsetof operands from %s:%s' % (f, off), e)
        t = self.L.resolve_named(m.group(1))
        if t[0] != 'rec':
            self.err('offsetof on unknown record %s' % m.group(1), e)
        return '((unsigned long)__builtin_offsetof(%s, %s))' % (self.L.cdecl(t, ''), m.group(2)), False

    def e_PredefinedExpr(self, e):
        self.err('predefined expr', e)

    # ---- statements
    def lower_compound_items(self, body):
        """lines for the statements inside CompoundStmt body (without braces); manages temp scope"""
        self.block_tmps.append([])
        lines = []
        for s in self.kids(body):
            lines.extend(self.stmt(s))
        tmps = self.block_tmps.pop()
        return tmps + lines

    def block(self, s):
        """lines of a braced block for statement s (wrapping non-compound statements)"""
        if s.get('kind') == 'CompoundStmt':
            inner = self.lower_compound_items(s)
        else:
            self.block_tmps.append([])
            inner = self.stmt(s)
            inner = self.block_tmps.pop() + inner
        return ['{'] + indent(inner) + ['}']

    def stmt(self, s):
        k = s.get('kind')
        m = getattr(self, 's_' + k, None)
        if m is not None:
            return m(s)
        if 'valueCategory' in s or k.endswith('Expr') or k.endswith('Operator') or k.endswith('Literal'):
            if self.is_void_zero(s):
                return []
            fe = self.begin_full_expr(s)
            lines = [self.rv(s) + ';']
            if fe:
                lines.extend(self.end_full_expr())
            return lines
        self.err('unsupported statement kind %s' % k, s)

    def s_CompoundStmt(self, s):
        return self.block(s)

    def s_NullStmt(self, s):
        return [';']

    def s_DeclStmt(self, s):
        out = []
        for d in self.kids(s):
            dk = d.get('kind')
            if dk == 'VarDecl':
                out.extend(self.vardecl(d))
            elif dk in ('StaticAssertDecl', 'TypeAliasDecl', 'TypedefDecl', 'UsingDecl', 'UsingDirectiveDecl', 'EmptyDecl'):
                continue
            elif dk in RECORD_KINDS or dk == 'EnumDecl':
                continue
            else:
                self.err('declaration of kind %s in function body' % dk, d)
        return out

    def vardecl(self, d):
        ks0 = [c for c in self.kids(d) if c.get('kind') not in ('FullComment',)]
        fe = False
        if ks0 and d.get('name') and d.get('storageClass') != 'static' and not self.L.is_ref(self.L.rtype(d['type'])):
            fe = self.begin_full_expr(ks0[0])
        lines = self.vardecl_inner(d)
        if fe:
            lines = lines + self.end_full_expr()
        return lines

    def vardecl_inner(self, d):
        L = self.L
        t = L.rtype(d['type'])
        if d.get('name'):
            name = cident(d['name'])
        else:
            # anonymous union object
            self.tmp_counter += 1
            name = '__anon%d' % self.tmp_counter
            self.renames[d['id']] = name
        ks = [c for c in self.kids(d) if c.get('kind') not in ('FullComment',)]
        if not d.get('name'):
            ks = []  # implicit constructor call of the anonymous union: trivial
        static = d.get('storageClass') == 'static'
        if t[0] == 'rec' or (t[0] == 'arr' and self.elem(t)[0] == 'rec'):
            rn = self.elem(t)[1]
            if self.nontrivial_dtor(rn) and not self.dtor_is_noop(rn):
                self.err('local variable %s of type %s has a non-trivial destructor' % (name, rn), d)
        if static:
            if not ('const' in d['type'].get('qualType', '') or d.get('constexpr')):
                self.err('mutable static local %s' % name, d)
            return [self.static_const(d, t, name, ks)]
        if L.is_ref(t):
            if not ks:
                self.err('reference without initializer', d)
            return ['%s = %s;' % (L.cdecl(('ptr', t[1]), name), self.addr_of(ks[0]))]
        decl = L.cdecl(t, name)
        if t[0] == 'arr' and t[2] is None:
            self.err('array of unknown bound', d)
        if not ks:
            return [decl + ';']
        init = self.skip_cleanups(ks[0])
        ik = init.get('kind')
        if t[0] in ('builtin', 'enum', 'ptr'):
            return ['%s = %s;' % (decl, self.rv(init))]
        if t[0] == 'rec':
            if ik in ('CXXConstructExpr', 'CXXTemporaryObjectExpr'):
                recname, ctor = self.find_ctor(init)
                if self.ctor_is_trivial_copy(recname, ctor, init):
                    return ['%s = %s;' % (decl, self.rv(self.kids(init)[0]))]
                return [decl + ';'] + self.construct_into('&' + name, init)
            if ik == 'InitListExpr':
                return [decl + ';'] + self.init_aggregate(name, t, init)
            return ['%s = %s;' % (decl, self.rv(init))]
        if t[0] == 'arr':
            return [decl + ';'] + self.init_object(name, t, init)
        self.err('variable of type %r' % (t,), d)

    def elem(self, t):
        while t[0] == 'arr':
            t = t[1]
        return t

    def static_const(self, d, t, name, ks):
        L = self.L
        if not ks:
            self.err('static const without initializer', d)
        init = self.skip_cleanups(ks[0])
        return 'static const %s = %s;' % (L.cdecl(t, name), self.const_init(init))

    def const_init(self, e):
        e = self.skip_cleanups(e)
        if e.get('kind') == 'InitListExpr':
            return '{' + ', '.join(self.const_init(x) for x in self.kids(e)) + '}'
        return self.rv(e)

    def s_ReturnStmt(self, s):
        ks = self.kids(s)
        if not ks:
            return ['return;']
        e = self.skip_cleanups(ks[0])
        if self.ret_is_ref:
            return ['return %s;' % self.addr_of(e)]
        rt = self.ret_type
        if rt == ('builtin', 'void'):
            return ['%s;' % self.rv(e), 'return;']
        return ['return %s;' % self.rv(e)]

    def cond_with_var(self, s, idx_has_var):
        pass

    def s_IfStmt(self, s):
        ks = list(self.kids(s))
        pre = []
        if s.get('hasInit'):
            pre.extend(self.stmt(ks.pop(0)))
        if s.get('hasVar'):
            pre.extend(self.stmt(ks.pop(0)))
        cond = ks[0]
        then = ks[1]
        els = ks[2] if len(ks) > 2 else None
        if s.get('isConstexpr'):
            # discarded branch is still present in non-dependent contexts: evaluate the condition value if constant
            pass
        out = ['if (%s)' % self.rv(cond)]
        out.extend(self.block(then))
        if els is not None:
            out.append('else')
            out.extend(self.block(els))
        if pre:
            return ['{'] + indent(pre + out) + ['}']
        return out

    def loop_contract(self):
        o = self.loop_ord
        self.loop_ord += 1
        lc = self.L.loop_contracts.get(self.cname, {})
        txt = lc.get(str(o))
        if txt:
            self.L.loop_contracts_used.add((self.cname, str(o)))
            return [l for l in txt.strip().split('\n')]
        return []

    def s_WhileStmt(self, s):
        ks = self.kids(s)
        if s.get('hasVar'):
            self.err('while with condition variable', s)
        cond, body = ks[0], ks[1]
        lc = self.loop_contract()
        out = ['while (%s)' % self.rv(cond)] + indent(lc)
        out.extend(self.block(body))
        return out

    def s_DoStmt(self, s):
        body, cond = self.kids(s)
        lc = self.loop_contract()
        # CBMC's grammar places the contract clauses of a do-while right after `do`
        out = ['do'] + indent(lc) + self.block(body)
        out.append('while (%s);' % self.rv(cond))
        return out

    def s_ForStmt(self, s):
        raw = s.get('inner', [])
        # clang: [init, condvar, cond, inc, body] with {} for absent parts
        parts = [c if isinstance(c, dict) and c.get('kind') else None for c in raw]
        if len(parts) != 5:
            self.err('for statement with %d parts' % len(parts), s)
        init, condvar, cond, inc, body = parts
        if condvar is not None:
            self.err('for with condition variable', s)
        pre = []
        if init is not None:
            pre = self.stmt(init)
        lc = self.loop_contract()
        out = ['for (; %s; %s)' % (self.rv(cond) if cond is not None else '', self.rv(inc) if inc is not None else '')]
        out.extend(indent(lc))
        out.extend(self.block(body))
        if pre:
            return ['{'] + indent(pre + out) + ['}']
        return out

    def s_BreakStmt(self, s):
        return ['break;']

    def s_ContinueStmt(self, s):
        return ['continue;']

    def s_SwitchStmt(self, s):
        ks = list(self.kids(s))
        pre = []
        if s.get('hasInit'):
            pre.extend(self.stmt(ks.pop(0)))
        if s.get('hasVar'):
            pre.extend(self.stmt(ks.pop(0)))
        cond, body = ks[0], ks[1]
        out = ['switch (%s)' % self.rv(cond)]
        if body.get('kind') != 'CompoundStmt':
            self.err('switch body is not a compound statement', s)
        self.block_tmps.append([])
        inner = []
        for c in self.kids(body):
            inner.extend(self.stmt(c))
        tmps = self.block_tmps.pop()
        if tmps:
            # temporaries may not be declared inside the switch body before the first label: hoist
            self.block_tmps[-1].extend(tmps)
        out.extend(['{'] + indent(inner) + ['}'])
        if pre:
            return ['{'] + indent(pre + out) + ['}']
        return out

    def s_CaseStmt(self, s):
        ks = self.kids(s)
        val = ks[0]
        if len(ks) == 3:
            self.err('case range', s)
        sub = ks[-1]
        out = ['case %s:' % self.rv(val)]
        out.extend(self.case_sub(sub))
        return out

    def case_sub(self, sub):
        if sub.get('kind') in ('CaseStmt', 'DefaultStmt'):
            return self.stmt(sub)
        if sub.get('kind') == 'DeclStmt':
            self.err('declaration directly after case label', sub)
        r = self.stmt(sub)
        return r if r else [';']

    def s_DefaultStmt(self, s):
        sub = self.kids(s)[0]
        return ['default:'] + self.case_sub(sub)

    def s_LabelStmt(self, s):
        self.err('label', s)

    def s_GotoStmt(self, s):
        self.err('goto', s)

    def s_CXXTryStmt(self, s):
        self.err('try', s)

    def s_CXXForRangeStmt(self, s):
        # clang has already desugared it: [init, __range decl, __begin decl, __end decl, cond, inc, loop-variable decl, body]
        raw = s.get('inner', [])
        parts = [c if isinstance(c, dict) and c.get('kind') else None for c in raw]
        if len(parts) != 8 or any(p is None for p in parts[1:]):
            self.err('range-based for with unexpected shape (%d parts)' % len(parts), s)
        init, rng, beg, end, cond, inc, var, body = parts
        pre = []
        for p in (init, rng, beg, end):
            if p is not None:
                pre.extend(self.stmt(p))
        lc = self.loop_contract()
        out = ['for (; %s; %s)' % (self.rv(cond), self.rv(inc))]
        out.extend(indent(lc))
        self.block_tmps.append([])
        inner = self.stmt(var) + self.block(body)
        inner = self.block_tmps.pop() + inner
        out.extend(['{'] + indent(inner) + ['}'])
        return ['{'] + indent(pre + out) + ['}']


def indent(lines):
    return ['  ' + l for l in lines]


def balanced(s):
    d = 0
    for ch in s:
        if ch == '(':
            d += 1
        elif ch == ')':
            d -= 1
            if d < 0:
                return False
    return d == 0


def paren(s):
    if re.fullmatch(r'[A-Za-z_][A-Za-z_0-9]*', s):
        return s
    if s.startswith('(') and s.endswith(')') and balanced(s[1:-1]):
        return s
    if re.fullmatch(r'[A-Za-z_][A-Za-z_0-9]*(->[A-Za-z_][A-Za-z_0-9]*|\.[A-Za-z_][A-Za-z_0-9]*)*', s):
        return s
    return '(' + s + ')'


def load_ast(path):
    with open(path) as f:
        return json.load(f)


def main(argv):
    import argparse
    ap = argparse.ArgumentParser()
    ap.add_argument('ast')
    ap.add_argument('--root', action='append', default=[], help='qualified function name (or re:regex)[|sig]')
    ap.add_argument('--stub', action='append', default=[], help='C names to leave as declarations')
    ap.add_argument('--loops', help='JSON file with loop contracts {cname:{ordinal:text}}')
    ap.add_argument('--list', help='list function qnames matching regex')
    ap.add_argument('-o', '--out')
    a = ap.parse_args(argv)
    L = Lowerer(load_ast(a.ast))
    if a.list:
        rx = re.compile(a.list)
        for qn, defs in sorted(L.func_defs.items()):
            if rx.search(qn):
                for d in defs:
                    print(qn, '|', ', '.join(L.type_name(p) for p in L.fn_types(d)[2]), '->', L.cname_of(L.func_first(d['id'])))
        return 0
    L.stub_names = set(a.stub)
    if a.loops:
        L.loop_contracts = json.load(open(a.loops))
    for r in a.root:
        sig = None
        if '|' in r:
            r, sig = r.split('|', 1)
        defs = L.find_functions(r, sig)
        if len(defs) != 1 and not r.startswith('re:'):
            raise LowerError('root %s: %d definitions found' % (r, len(defs)))
        if not defs:
            raise LowerError('root %s: no definition found' % r)
        for d in defs:
            L.require(d['id'])
    text = L.output()
    if a.out:
        open(a.out, 'w').write(text)
    else:
        sys.stdout.write(text)
    return 0


if __name__ == '__main__':
    try:
        sys.exit(main(sys.argv[1:]))
    except LowerError as e:
        sys.stderr.write('ajlower: LOWERING FAILED (undecided, exit 2): %s\n' % e)
        sys.exit(2)
