#!/bin/sh
# usage: try_seed.sh <patch.diff> <Cxx> [<Cyy> ...]   -- applies the patch to /repo, runs the checks, reverts
P=$1; shift
cd /repo && git apply "$P" || { echo "PATCH DOES NOT APPLY: $P"; exit 3; }
for p in "$@"; do
  cd /verif && VERIF_EVIDENCE_DIR=/tmp/seed_evidence ./check $p 2>&1 | grep -E "^property=|VIOLATION|UNDECIDED" | cut -c1-260 | head -6
done
cd /repo && git checkout -- .
