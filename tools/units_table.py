#!/usr/bin/env python3
"""prints the unit / obligation inventory (markdown)"""
import json, glob, collections, os
ROOT = os.path.dirname(os.path.dirname(os.path.abspath(__file__)))
rows = []
for f in sorted(glob.glob(os.path.join(ROOT, 'units', '*.json'))):
    for u in json.load(open(f)):
        cls = collections.Counter(ob.get('class', 'U') for ob in u['obligations'])
        props = set()
        for ob in u['obligations']:
            props.update(ob.get('props', u.get('props', [])))
        rows.append((os.path.basename(f)[:-5], u['unit'], len(u['obligations']), ' '.join('%s:%d' % kv for kv in sorted(cls.items())),
                     ','.join(sorted(props)), len(u.get('roots', [])), len(u.get('stubs', [])),
                     'loops' if (u.get('loops') or u.get('loops_by_config')) else '', ','.join(u.get('configs', ['def64']))))
print('| family | unit | obligations | classes | properties | roots/stubs | configs |')
print('|---|---|---|---|---|---|---|')
for r in rows:
    print('| %s | %s | %d | %s | %s | %d/%d %s | %s |' % r)
print('\n%d units, %d obligations' % (len(rows), sum(r[2] for r in rows)))
