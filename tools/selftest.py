#!/usr/bin/env python3
"""setup check: tool versions present; nothing persistent is built (every check rebuilds from /repo's working tree)."""
import subprocess, sys, shutil, os
need = ['cbmc', 'goto-cc', 'goto-instrument', 'clang++-14', 'gcc', 'g++', 'python3']
bad = [t for t in need if shutil.which(t) is None]
if bad:
    print('missing tools:', bad)
    sys.exit(1)
v = subprocess.run(['cbmc', '--version'], stdout=subprocess.PIPE).stdout.decode().strip()
print('cbmc', v)
os.makedirs(os.path.join(os.path.dirname(os.path.dirname(os.path.abspath(__file__))), 'build'), exist_ok=True)
sys.exit(0)
