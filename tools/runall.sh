#!/bin/sh
# runs every claimed check (quick tier unless TIER=thorough) and prints one summary line per property
cd /verif
for p in $(python3 -c "import json;print(' '.join(c['property_id'] for c in json.load(open('MANIFEST.json'))['checks']))"); do
  ./check $p --tier ${TIER:-quick} > /tmp/runall_$p.log 2>&1; rc=$?
  echo "$p rc=$rc $(grep -E '^property=' /tmp/runall_$p.log | cut -c1-200)"
  grep -E "VIOLATION|UNDECIDED" /tmp/runall_$p.log | cut -c1-220 | head -3
done
