#!/bin/sh
# usage: confirm_seed.sh <worktree> <outdir> <seedname> [extra g++ flags]
# confirms a seeded change: demo passes without the patch, fails with it; suite still 100% with it. Copies to /verif/seeded/<seedname>.
WT=$1; OUT=$2; NAME=$3; shift 3; FLAGS="$@"
LOG=/tmp/mut/confirm_$NAME.log
{
cd $WT && git checkout -q -- . && git clean -fdq -e _b
echo "== demo WITHOUT patch"; g++ -std=c++17 -fsanitize=address,undefined -I $WT/src $FLAGS $OUT/demo.cpp -o /tmp/mut/demo_$NAME 2>&1 | tail -3; /tmp/mut/demo_$NAME > /dev/null 2>&1; echo "exit=$?"
git apply $OUT/patch.diff || echo "PATCH DOES NOT APPLY"
echo "== demo WITH patch"; g++ -std=c++17 -fsanitize=address,undefined -I $WT/src $FLAGS $OUT/demo.cpp -o /tmp/mut/demo_$NAME 2>&1 | tail -3; /tmp/mut/demo_$NAME > /dev/null 2>&1; echo "exit=$?"
echo "== suite WITH patch"; cmake -G Ninja -B _b -DCMAKE_BUILD_TYPE=Debug > /dev/null 2>&1; ninja -C _b > /dev/null 2>&1; echo "build=$?"; ctest --test-dir _b -j8 2>&1 | grep -E "tests passed|tests failed" 
git checkout -q -- .; rm -rf _b /tmp/mut/demo_$NAME
} > $LOG 2>&1
mkdir -p /verif/seeded/$NAME && cp $OUT/patch.diff $OUT/demo.cpp /verif/seeded/$NAME/ && cp $OUT/notes.txt /verif/seeded/$NAME/notes.txt 2>/dev/null
cp $LOG /verif/seeded/$NAME/confirm.log
