#!/bin/sh
# usage: seed_all.sh <plan-file> [parallel]   -- plan lines: "<seed> <Cxx> ..." ; runs tools/seed_wt.sh for each (scratch worktrees)
PLAN=$1; PAR=${2:-2}
cat "$PLAN" | xargs -P "$PAR" -L 1 sh -c 'S=$0; /verif/tools/seed_wt.sh $S /verif/seeded/$S/patch.diff "$@" > /tmp/seedwt_$S.log 2>&1'
for s in $(cut -d" " -f1 "$PLAN"); do echo "=== $s"; cat /tmp/seedwt_$s.log; done
