#!/bin/sh
# usage: seed_wt.sh <seed-name> <patch.diff> <Cxx> [<Cyy> ...]
# Tests a seeded change WITHOUT touching /repo: a scratch worktree of /repo's HEAD under /tmp/seedwt/<seed-name> gets the
# patch, the checks run against it (VERIF_REPO) with their own build, replay and evidence directories, and everything is
# removed afterwards. Several seeds can therefore be tested in parallel and while checks run on the unchanged tree.
N=$1; P=$2; shift 2
W=/tmp/seedwt/$N.$$   # unique per invocation: several people may test the same seed at once
rm -rf "$W" "$W.out"; mkdir -p /tmp/seedwt "$W.out"
git -C /repo worktree prune; git -C /repo worktree add -q --detach "$W" HEAD || exit 3
( cd "$W" && git apply "$P" ) || { echo "PATCH DOES NOT APPLY: $P"; git -C /repo worktree remove --force "$W"; exit 3; }
for p in "$@"; do
  cd /verif && VERIF_REPO="$W" VERIF_BUILD_DIR="$W.out/build" VERIF_REPLAY_DIR="$W.out/replays" VERIF_EVIDENCE_DIR="$W.out/evidence" \
    ./check $p 2>&1 | grep -E "^property=|VIOLATION|UNDECIDED|KNOWN-FINDING" | cut -c1-300 | sed "s|^|[$N] |" | head -12
done
git -C /repo worktree remove --force "$W"; rm -rf "$W.out"
