"""Parser for the C++ type strings clang prints in its JSON AST (qualType), and C spelling.

A type is a tuple tree:
  ('named', name)           name normalised (namespaces ArduinoJson::, V<ver>::, detail:: stripped)
  ('ptr', t) ('ref', t) ('rref', t) ('arr', t, n|None) ('func', ret, [params], variadic)
const/volatile are dropped (stated in DESIGN.md section 3).
"""
import re

class TypeError_(Exception):
    pass

_tok_re = re.compile(r"\s*(::|&&|\.\.\.|[A-Za-z_~][A-Za-z_0-9]*|\d+[uUlL]*|'(?:\\.|[^'])'|[<>,*&()\[\]\-])")

BUILTIN_WORDS = {'unsigned', 'signed', 'char', 'short', 'int', 'long', 'float', 'double', 'void', 'bool',
                 'wchar_t', 'char16_t', 'char32_t', '__int128', '_Bool'}
SKIP_WORDS = {'const', 'volatile', 'typename', 'struct', 'class', 'union', 'enum', 'restrict', '__restrict'}
NS_STRIP = re.compile(r'^(ArduinoJson|V[0-9A-Z]{5,}|detail)$')


def tokenize(s):
    # anonymous records: "(anonymous union at /path:12:3)" -> single ident token
    def anon(m):
        return 'anon_' + re.sub(r'[^A-Za-z0-9]', '_', m.group(2).split('/')[-1])
    s = re.sub(r'\((anonymous|unnamed) (?:struct|union|class|enum)? ?at ([^)]*)\)', anon, s)
    s = s.replace('(anonymous namespace)::', '')
    toks = []
    pos = 0
    while pos < len(s):
        if s[pos].isspace():
            pos += 1
            continue
        m = _tok_re.match(s, pos)
        if not m:
            raise TypeError_('cannot tokenize type %r at %d' % (s, pos))
        toks.append(m.group(1))
        pos = m.end()
    return toks


class P:
    def __init__(self, toks, src):
        self.t = toks
        self.i = 0
        self.src = src
        self.kc = 0   # >0 while inside template arguments: const is part of the type's identity there

    def peek(self, k=0):
        return self.t[self.i + k] if self.i + k < len(self.t) else None

    def next(self):
        x = self.peek()
        self.i += 1
        return x

    def expect(self, x):
        if self.peek() != x:
            raise TypeError_('expected %r at %d in %r' % (x, self.i, self.src))
        self.i += 1

    def parse_base(self):
        pre_const = False
        while self.peek() in SKIP_WORDS:
            if self.next() == 'const':
                pre_const = True
        b = self.parse_base0()
        # trailing cv directly after the base name (e.g. 'char const') is handled by parse_suffix
        if self.kc and pre_const:
            return ('const', b)
        return b

    def parse_base0(self):
        words = []
        if self.peek() in BUILTIN_WORDS:
            while self.peek() in BUILTIN_WORDS or self.peek() in SKIP_WORDS:
                w = self.next()
                if w in BUILTIN_WORDS:
                    words.append(w)
                elif w == 'const' and self.kc:
                    self._post_const = True
            return ('named', canon_builtin(words))
        # qualified name
        parts = []
        if self.peek() == '::':
            self.next()
        while True:
            ident = self.next()
            if ident is None or not re.match(r'[A-Za-z_~]', ident):
                raise TypeError_('identifier expected, got %r in %r' % (ident, self.src))
            if ident == 'operator':
                raise TypeError_('operator name in type %r' % self.src)
            name = ident
            if self.peek() == '<':
                self.next()
                args = []
                if self.peek() == '>':
                    self.next()
                else:
                    while True:
                        args.append(self.parse_targ())
                        if self.peek() == ',':
                            self.next()
                            continue
                        self.expect('>')
                        break
                name += '<' + ', '.join(args) + '>'
            parts.append(name)
            if self.peek() == '::':
                self.next()
                continue
            break
        # strip namespaces
        while len(parts) > 1 and NS_STRIP.match(parts[0]):
            parts.pop(0)
        if parts[0] == 'std' and len(parts) == 2 and parts[1] == 'nullptr_t':
            return ('ptr', ('named', 'void'))
        return ('named', '::'.join(parts))

    def parse_targ(self):
        # template argument: a type, or an integral / bool / char literal (possibly negative)
        t = self.peek()
        if t == '-':
            self.next()
            return '-' + self.next()
        if t is not None and (t[0].isdigit() or t[0] == "'"):
            return re.sub(r'[uUlL]+$', '', self.next())
        if t in ('true', 'false'):
            return '1' if self.next() == 'true' else '0'
        self.kc += 1
        try:
            ty = self.parse_type()
        finally:
            self.kc -= 1
        return type_str(ty)

    def parse_type(self):
        base = self.parse_base()
        return self.parse_suffix(base)

    def parse_suffix(self, t):
        while True:
            x = self.peek()
            if x in SKIP_WORDS:
                self.next()
                if x == 'const' and self.kc and t[0] != 'const':
                    t = ('const', t)
            elif x == '*':
                self.next()
                t = ('ptr', t)
            elif x == '&':
                self.next()
                t = ('ref', t)
            elif x == '&&':
                self.next()
                t = ('rref', t)
            elif x == '[':
                # array (possibly multi-dim)
                dims = []
                while self.peek() == '[':
                    self.next()
                    if self.peek() == ']':
                        dims.append(None)
                    else:
                        dims.append(int(re.sub(r'[uUlL]+$', '', self.next())))
                    self.expect(']')
                for d in reversed(dims):
                    t = ('arr', t, d)
            elif x == '(':
                nxt = self.peek(1)
                if nxt in ('*', '&', '&&'):
                    # declarator group: T (*)(params) or T (&)[N]
                    self.next()
                    ops = []
                    while self.peek() != ')':
                        o = self.next()
                        if o in ('*', '&', '&&'):
                            ops.append(o)
                        elif o in SKIP_WORDS:
                            pass
                        else:
                            raise TypeError_('unsupported declarator %r in %r' % (o, self.src))
                    self.expect(')')
                    # what follows applies to t first
                    if self.peek() == '(':
                        t = self.parse_funcsuffix(t)
                    elif self.peek() == '[':
                        t = self.parse_suffix_once_array(t)
                    for o in ops:
                        t = ({'*': 'ptr', '&': 'ref', '&&': 'rref'}[o], t)
                else:
                    t = self.parse_funcsuffix(t)
            else:
                return t

    def parse_suffix_once_array(self, t):
        dims = []
        while self.peek() == '[':
            self.next()
            if self.peek() == ']':
                dims.append(None)
            else:
                dims.append(int(re.sub(r'[uUlL]+$', '', self.next())))
            self.expect(']')
        for d in reversed(dims):
            t = ('arr', t, d)
        return t

    def parse_funcsuffix(self, ret):
        self.expect('(')
        params = []
        variadic = False
        if self.peek() == ')':
            self.next()
        else:
            while True:
                if self.peek() == '...':
                    self.next()
                    variadic = True
                else:
                    params.append(self.parse_type())
                if self.peek() == ',':
                    self.next()
                    continue
                self.expect(')')
                break
        # trailing qualifiers
        while self.peek() in ('const', 'volatile', 'noexcept', '&', '&&'):
            self.next()
        if params == [('named', 'void')]:
            params = []
        return ('func', ret, params, variadic)


def canon_builtin(words):
    w = [x for x in words]
    if w == ['bool'] or w == ['_Bool']:
        return '_Bool'
    s = ' '.join(w)
    table = {
        'char': 'char', 'signed char': 'signed char', 'unsigned char': 'unsigned char',
        'short': 'short', 'short int': 'short', 'unsigned short': 'unsigned short', 'unsigned short int': 'unsigned short',
        'int': 'int', 'signed': 'int', 'signed int': 'int', 'unsigned': 'unsigned int', 'unsigned int': 'unsigned int',
        'long': 'long', 'long int': 'long', 'unsigned long': 'unsigned long', 'unsigned long int': 'unsigned long',
        'long long': 'long long', 'long long int': 'long long', 'unsigned long long': 'unsigned long long',
        'unsigned long long int': 'unsigned long long',
        'float': 'float', 'double': 'double', 'long double': 'long double', 'void': 'void',
        'wchar_t': 'int', 'char16_t': 'unsigned short', 'char32_t': 'unsigned int',
        '__int128': '__int128', 'unsigned __int128': 'unsigned __int128',
    }
    if s not in table:
        raise TypeError_('unknown builtin type %r' % s)
    return table[s]


BUILTINS = {'char', 'signed char', 'unsigned char', 'short', 'unsigned short', 'int', 'unsigned int', 'long',
            'unsigned long', 'long long', 'unsigned long long', 'float', 'double', 'long double', 'void', '_Bool',
            '__int128', 'unsigned __int128'}


def parse(s):
    p = P(tokenize(s), s)
    t = p.parse_type()
    if p.peek() is not None:
        raise TypeError_('trailing tokens %r in type %r' % (p.t[p.i:], s))
    return t


def parse_targ_string(s):
    """parse a template-argument type string keeping const qualifiers (they are part of the specialisation's identity)"""
    p = P(tokenize(s), s)
    p.kc = 1
    t = p.parse_type()
    if p.peek() is not None:
        raise TypeError_('trailing tokens %r in type %r' % (p.t[p.i:], s))
    return t


def type_str(t):
    """canonical text of a type tree (used for naming / lookups)"""
    k = t[0]
    if k == 'named':
        return t[1]
    if k == 'const':
        if t[1][0] in ('ptr',):
            return type_str(t[1]) + ' const'
        return 'const ' + type_str(t[1])
    if k == 'ptr':
        return type_str(t[1]) + ' *'
    if k == 'ref':
        return type_str(t[1]) + ' &'
    if k == 'rref':
        return type_str(t[1]) + ' &&'
    if k == 'arr':
        return type_str(t[1]) + '[%s]' % ('' if t[2] is None else t[2])
    if k == 'func':
        return type_str(t[1]) + ' (' + ', '.join(type_str(x) for x in t[2]) + (', ...' if t[3] else '') + ')'
    raise TypeError_('bad type tree %r' % (t,))


def sanitize(name):
    s = name
    s = s.replace('unsigned ', 'u').replace('long long', 'llong')
    s = s.replace(' *', '_p').replace(' &&', '_rr').replace(' &', '_r')
    s = s.replace('::', '__').replace('<', '_').replace('>', '').replace(', ', '_').replace(',', '_')
    s = s.replace('[', '_a').replace(']', '').replace(' ', '').replace('-', 'm').replace('~', 'dtor_')
    s = s.replace("'", 'q').replace('\\', 'b').replace('(', '_').replace(')', '')
    s = re.sub(r'[^A-Za-z0-9_]', '_', s)
    return s
