#!/usr/bin/env python3
"""driver: runs the contract obligations of one property, triages failures, writes evidence.

exit 0  every obligation discharged (KNOWN-FINDING lines for listed findings)
exit 1  VIOLATION property=<id> replay=<path> [no-failing-input-found]
exit 2  UNDECIDED (timeout, tool error, lowering must-fire miss, vacuity guard)  -- never a VIOLATION line
"""
import argparse
import threading
import concurrent.futures as cf
import glob
import hashlib
import json
import os
import re
import resource
import shutil
import subprocess
import sys
import time

ROOT = os.path.dirname(os.path.dirname(os.path.abspath(__file__)))
REPO = os.environ.get('VERIF_REPO', '/repo')
BUILD = os.environ.get('VERIF_BUILD_DIR') or os.path.join(ROOT, 'build')
REPLAYS = os.environ.get('VERIF_REPLAY_DIR') or os.path.join(ROOT, 'replays')
sys.path.insert(0, os.path.join(ROOT, 'tools'))

CBMC_BASE = ['--bounds-check', '--pointer-check', '--pointer-overflow-check', '--signed-overflow-check',
             '--div-by-zero-check', '--undefined-shift-check', '--pointer-primitive-check']
MEM_LIMIT = 14 * 1024 * 1024 * 1024


def sh(cmd, timeout, cwd=None, stdin=None):
    def lim():
        resource.setrlimit(resource.RLIMIT_AS, (MEM_LIMIT, MEM_LIMIT))
        os.setsid()
    t0 = time.time()
    try:
        p = subprocess.Popen(cmd, stdout=subprocess.PIPE, stderr=subprocess.STDOUT, cwd=cwd, preexec_fn=lim,
                             stdin=subprocess.DEVNULL)
        try:
            out, _ = p.communicate(timeout=timeout)
            rc = p.returncode
        except subprocess.TimeoutExpired:
            try:
                os.killpg(p.pid, 9)
            except Exception:
                pass
            out, _ = p.communicate()
            rc = -9
        return rc, out.decode('utf-8', 'replace'), time.time() - t0
    except FileNotFoundError as e:
        return 127, str(e), 0.0


def sha(*parts):
    h = hashlib.sha256()
    for p in parts:
        if isinstance(p, str):
            p = p.encode()
        h.update(p)
        h.update(b'\0')
    return h.hexdigest()


def file_hash(path):
    with open(path, 'rb') as f:
        return hashlib.sha256(f.read()).hexdigest()


def src_tree_hash():
    h = hashlib.sha256()
    base = os.path.join(REPO, 'src')
    for dp, dn, fn in sorted(os.walk(base)):
        dn.sort()
        for f in sorted(fn):
            p = os.path.join(dp, f)
            h.update(p.encode())
            with open(p, 'rb') as fh:
                h.update(fh.read())
    return h.hexdigest()


def load_json(p):
    with open(p) as f:
        return json.load(f)


class Undecided(Exception):
    pass


AST_LOCK = threading.RLock()


class Ctx:
    def __init__(self):
        self.configs = load_json(os.path.join(ROOT, 'configs.json'))
        self.units = {}
        for p in sorted(glob.glob(os.path.join(ROOT, 'units', '*.json'))):
            if os.path.basename(p) == 'expected_counts.json':
                continue
            for u in load_json(p):
                u['_file'] = p
                self.units[u['unit']] = u
        self.src_hash = src_tree_hash()
        self.tool_hash = sha(file_hash(os.path.join(ROOT, 'tools', 'ajlower.py')),
                             file_hash(os.path.join(ROOT, 'tools', 'cxxtypes.py')))
        self.asts = {}
        self.lowerers = {}
        self.loops_dropped = {}
        self.cmdlog = []

    # ---------------------------------------------------------------- AST + lowering
    def ast_path(self, tu, cfg):
        d = os.path.join(BUILD, cfg)
        os.makedirs(d, exist_ok=True)
        return os.path.join(d, tu + '.ast.json')

    def ast_key(self, tu, cfg):
        return sha(self.src_hash, file_hash(os.path.join(ROOT, 'tu', tu + '.cpp')), json.dumps(self.configs[cfg]))

    def ensure_ast(self, tu, cfg):
        with AST_LOCK:
            return self._ensure_ast(tu, cfg)

    def _ensure_ast(self, tu, cfg):
        path = self.ast_path(tu, cfg)
        keyf = path + '.key'
        key = self.ast_key(tu, cfg)
        if os.path.exists(path) and os.path.exists(keyf) and open(keyf).read() == key:
            return path
        cmd = ['clang++-14', '-std=c++17', '-fsyntax-only', '-I' + os.path.join(REPO, 'src'), '-Xclang', '-ast-dump=json'] + \
            self.configs[cfg] + [os.path.join(ROOT, 'tu', tu + '.cpp')]
        t0 = time.time()
        tmp = '%s.tmp%d' % (path, os.getpid())
        with open(tmp, 'wb') as out:
            p = subprocess.run(cmd, stdout=out, stderr=subprocess.PIPE, timeout=600)
        if p.returncode != 0:
            os.unlink(tmp)
            raise Undecided('clang failed on tu/%s.cpp [%s]: %s' % (tu, cfg, p.stderr.decode()[-2000:]))
        os.replace(tmp, path)
        open(keyf, 'w').write(key)
        self.cmdlog.append(' '.join(cmd) + '  # %.1fs' % (time.time() - t0))
        return path

    def lowerer(self, tu, cfg):
        with AST_LOCK:
            return self._lowerer(tu, cfg)

    def _lowerer(self, tu, cfg):
        import ajlower
        k = (tu, cfg)
        if k not in self.lowerers:
            path = self.ensure_ast(tu, cfg)
            self.lowerers[k] = ajlower.Lowerer(ajlower.load_ast(path))
        return self.lowerers[k]

    def unit_dir(self, unit, cfg):
        d = os.path.join(BUILD, cfg, unit['unit'])
        os.makedirs(d, exist_ok=True)
        return d

    def lower_unit(self, unit, cfg, drop_loops=False):
        """returns dir with lowered.c, funcs.json, shim.cpp (cached)"""
        import ajlower
        d = self.unit_dir(unit, cfg)
        lf = (unit.get('loops_by_config') or {}).get(cfg) or unit.get('loops')
        loops_file = os.path.join(ROOT, lf) if lf else None
        key = sha(self.ast_key(unit.get('tu', 'all'), cfg), self.tool_hash,
                  json.dumps({k: unit.get(k) for k in ('roots', 'stubs', 'shim')}, sort_keys=True),
                  (file_hash(loops_file) if loops_file else '') + ('|noloops' if drop_loops else ''))
        keyf = os.path.join(d, 'lowered.key')
        if os.path.exists(keyf) and open(keyf).read() == key and os.path.exists(os.path.join(d, 'lowered.c')):
            return d
        L = self.lowerer(unit.get('tu', 'all'), cfg)
        L.reset_emission()
        L.stub_names = set(unit.get('stubs', ()))
        L.loop_contracts = load_json(loops_file) if (loops_file and not drop_loops) else {}
        try:
            for r in unit['roots']:
                sig = None
                if '|' in r:
                    r, sig = r.split('|', 1)
                defs = L.find_functions(r, sig)
                if not defs:
                    raise ajlower.LowerError('root %s: no definition found (renamed or removed?)' % r)
                if len(defs) != 1 and not r.startswith('re:'):
                    raise ajlower.LowerError('root %s: %d definitions found (give a |signature)' % (r, len(defs)))
                for dnode in defs:
                    L.require(dnode['id'])
            text = L.output()
            for fn, lc in L.loop_contracts.items():
                for o in lc:
                    if (fn, str(o)) not in L.loop_contracts_used:
                        raise ajlower.LowerError('loop contract %s#%s was not spliced (function not lowered or loop missing)' % (fn, o))
            shim = L.emit_shim(unit.get('shim', {}))
            types_h = L.output(types_only=True)
        except ajlower.LowerError as e:
            if loops_file and not drop_loops and 'loop' in str(e):
                # the code no longer has the loop structure / locals the loop contracts were written for: lower without them;
                # the obligations of this unit then fall back to the bounded counterexample search (never a pass)
                self.loops_dropped[(unit['unit'], cfg)] = str(e)
                return self.lower_unit(unit, cfg, drop_loops=True)
            raise Undecided('lowering of unit %s [%s] failed: %s' % (unit['unit'], cfg, e))
        open(os.path.join(d, 'lowered.c'), 'w').write(text)
        open(os.path.join(d, 'shim.cpp'), 'w').write(shim)
        open(os.path.join(d, 'lowered_types.h'), 'w').write(types_h)
        json.dump(L.func_info, open(os.path.join(d, 'funcs.json'), 'w'), indent=1)
        open(keyf, 'w').write(key)
        return d


# -------------------------------------------------------------------- cbmc result parsing
PROP_RE = re.compile(r'^\[(?P<name>[^\]]+)\]\s+(?:line (?P<line>\d+)\s+)?(?P<desc>.*): (?P<res>SUCCESS|FAILURE|UNKNOWN|ERROR)\s*$')


USER_PROP_RE = re.compile(r'\.(assertion|precondition|postcondition|loop_|assigns|unwind)')


def parse_cbmc(out):
    props = []
    for line in out.splitlines():
        m = PROP_RE.match(line.strip())
        if m:
            props.append({'name': m.group('name'), 'line': m.group('line'), 'desc': m.group('desc'), 'res': m.group('res')})
    verdict = None
    if 'VERIFICATION SUCCESSFUL' in out:
        verdict = 'SUCCESSFUL'
    elif 'VERIFICATION FAILED' in out:
        verdict = 'FAILED'
    return verdict, props


def parse_cover(out):
    m = re.search(r'\*\* (\d+) of (\d+) covered', out)
    if not m:
        return None
    return int(m.group(1)), int(m.group(2))


def extract_all_inputs(jtxt):
    """list of (property name, inputs) for every FAILURE result carrying a trace"""
    try:
        data = json.loads(jtxt)
    except Exception:
        return []
    out = []
    for item in data:
        if not isinstance(item, dict) or 'result' not in item:
            continue
        for r in item['result']:
            if r.get('status') == 'FAILURE' and 'trace' in r:
                inputs = []
                for st in r['trace']:
                    if st.get('stepType') != 'assignment':
                        continue
                    fn = st.get('sourceLocation', {}).get('function', '')
                    if fn in ('in_u8', 'in_u16', 'in_u32', 'in_u64') and st.get('lhs') == 'v' \
                            and st.get('assignmentType') == 'variable' and not st.get('hidden'):
                        b = st.get('value', {}).get('binary')
                        if b is not None:
                            inputs.append({'fn': fn, 'value': int(b, 2)})
                out.append((r.get('property'), r.get('description'), inputs))
    return out


def extract_inputs(jtxt):
    """ordered list of values returned by in_*() functions in a cbmc JSON trace"""
    try:
        data = json.loads(jtxt)
    except Exception:
        return None, None
    inputs = []
    failed = None
    for item in data:
        if not isinstance(item, dict) or 'result' not in item:
            continue
        for r in item['result']:
            if r.get('status') == 'FAILURE' and 'trace' in r:
                failed = {'property': r.get('property'), 'description': r.get('description'),
                          'sourceLocation': r.get('sourceLocation')}
                for st in r['trace']:
                    if st.get('stepType') != 'assignment':
                        continue
                    fn = st.get('sourceLocation', {}).get('function', '')
                    if fn in ('in_u8', 'in_u16', 'in_u32', 'in_u64') and st.get('lhs') == 'v' \
                            and st.get('assignmentType') == 'variable' and not st.get('hidden'):
                        v = st.get('value', {})
                        b = v.get('binary')
                        if b is None:
                            continue
                        inputs.append({'fn': fn, 'value': int(b, 2)})
                return inputs, failed
    return inputs, failed


# -------------------------------------------------------------------- one obligation
def run_obligation(ctx, unit, ob, cfg, tier, canary=False, want_trace=False, cover=False, search=False):
    """returns dict(status = proved|failed|undecided, ...)"""
    res = {'unit': unit['unit'], 'ob': ob['id'], 'config': cfg,
           'class': 'B' if cfg in ob.get('bounded_configs', unit.get('bounded_configs', ())) else ob.get('class', 'U'),
           'mode': ob.get('mode', 'plain'), 'canary': canary, 'is_cover': cover, 'cmds': []}
    if ob.get('kind') == 'census':
        return run_census(ctx, unit, ob, cfg, res, canary)
    if ob.get('kind') == 'callgraph':
        return run_callgraph(ctx, unit, ob, cfg, res, canary)
    d = ctx.unit_dir(unit, cfg)
    tag = ob['id'] + ('.canary' if canary else '') + ('.cover' if cover else '') + ('.search' if search else '')
    spec = os.path.join(ROOT, unit['spec'])
    harness = ob['harness']
    budget = ob.get('timeout', 360) * (5 if tier == 'thorough' else 1)  # a guard against hangs only: generous, so that a loaded machine does not turn a proof into exit 2
    t0 = time.time()
    a = os.path.join(d, tag + '.a.gb')
    defs = ['-DVERIF_CBMC=1', '-DCFG_' + cfg + '=1'] + ctx.configs[cfg] + ['-D' + x for x in ob.get('defines', ())]
    if canary:
        defs.append('-D%s=1' % ob['canary'])
    if cover:
        defs.append('-DVERIF_COVER=1')
    cmd = ['goto-cc', '--function', harness] + defs + ['-I', d, '-I', os.path.join(ROOT, 'contracts'), spec, '-o', a]
    rc, out, dt = sh(cmd, 120)
    res['cmds'].append(' '.join(cmd))
    if rc != 0:
        res.update(status='undecided', reason='goto-cc failed: ' + out[-1500:])
        return res
    cur = a
    uses_loops = bool(unit.get('loops')) and not ob.get('no_loop_contracts') and not search
    if uses_loops:
        b = os.path.join(d, tag + '.b.gb')
        cmd = ['goto-instrument', '--apply-loop-contracts', cur, b]
        rc, out, dt = sh(cmd, budget)
        res['cmds'].append(' '.join(cmd))
        if rc != 0:
            res.update(status='undecided', reason='goto-instrument --apply-loop-contracts failed/timeout: ' + out[-1500:])
            return res
        cur = b
    if ob.get('mode') == 'dfcc':
        c = os.path.join(d, tag + '.c.gb')
        cmd = ['goto-instrument', '--dfcc', harness]
        for f, con in ob.get('enforce', {}).items():
            cmd += ['--enforce-contract', '%s/%s' % (f, con) if con else f]
        for f, con in ob.get('replace', {}).items():
            cmd += ['--replace-call-with-contract', '%s/%s' % (f, con) if con else f]
        cmd += [cur, c]
        rc, out, dt = sh(cmd, budget)
        res['cmds'].append(' '.join(cmd))
        if rc != 0:
            res.update(status='undecided', reason='goto-instrument --dfcc failed/timeout: ' + out[-2500:])
            return res
        cur = c
    flags = (['--bounds-check', '--pointer-check'] if search else list(CBMC_BASE)) + ob.get('cbmc', [])
    if search:
        flags += ['--unwind', str(ob.get('search_unwind', 6)), '--no-unwinding-assertions']
    elif ob.get('unwind'):
        flags += ['--unwind', str(ob['unwind']), '--unwinding-assertions']
    solver = ob.get('solver')
    if solver == 'cadical':
        flags += ['--sat-solver', 'cadical']
    elif solver == 'cvc5':
        flags += ['--cvc5']
    elif solver == 'z3':
        flags += ['--z3']
    elif solver == 'kissat':
        flags += ['--external-sat-solver', 'kissat']
    cmd = ['cbmc'] + flags + [cur]
    rc, out, dt = sh(cmd, budget)
    res['cmds'].append(' '.join(cmd))
    res['solver_s'] = round(dt, 2)
    res['backend'] = solver or 'minisat (default SAT)'
    verdict, props = parse_cbmc(out)
    res['properties'] = len(props)
    res['user_props'] = len([p for p in props if USER_PROP_RE.search(p['name']) or p['desc'] == 'assertion' or p['desc'].startswith('Check ')])
    res['failed_props'] = [p for p in props if p['res'] != 'SUCCESS']
    res['sample_props'] = [p['name'] + ': ' + p['desc'] for p in props[:3]]
    if 'ignoring' in out and ('forall' in out or 'exists' in out):
        res.update(status='undecided', reason='back end ignored a quantifier')
        return res
    if rc == -9:
        res.update(status='undecided', reason='cbmc timeout after %ds' % budget)
        return res
    if rc == 0 and verdict == 'SUCCESSFUL':
        res['status'] = 'proved'
        if len(props) == 0:
            res.update(status='undecided', reason='zero properties generated (vacuous)')
        res['wall_s'] = round(time.time() - t0, 2)
        return res
    if cover:
        covs = [p for p in props if p['desc'].startswith('COVER') and p['name'].startswith(harness + '.')]
        unreached = [p['desc'] for p in covs if p['res'] != 'FAILURE']
        others = [p for p in props if not p['desc'].startswith('COVER') and p['res'] != 'SUCCESS']
        res['cover'] = [len(covs) - len(unreached), len(covs)]
        if rc in (0, 10) and covs and not unreached:
            res['status'] = 'covered'
            if want_trace:
                cmdt = ['cbmc'] + flags + ['--trace', '--json-ui', cur]
                rc3, out3, dt3 = sh(cmdt, budget)
                res['cover_traces'] = [(n, dsc, inp) for (n, dsc, inp) in extract_all_inputs(out3) if (dsc or '').startswith('COVER')]
        elif rc in (0, 10):
            res.update(status='undecided', reason='cover goals unreachable behind the preconditions (vacuity): %s' % (unreached or 'no COVER goal in harness'))
        else:
            res.update(status='undecided', reason='cover run rc=%s: %s' % (rc, out[-800:]))
        return res
    if rc == 10 and verdict == 'FAILED':
        res['status'] = 'failed'
        res['cbmc_tail'] = '\n'.join(l for l in out.splitlines() if 'FAILURE' in l)[:4000]
        if want_trace and not canary:
            cmdt = ['cbmc'] + flags + ['--trace', '--json-ui', cur]
            rc3, out3, dt3 = sh(cmdt, budget)
            inputs, failed = extract_inputs(out3)
            res['trace_inputs'] = inputs
            res['trace_failed'] = failed
        res['wall_s'] = round(time.time() - t0, 2)
        return res
    res.update(status='undecided', reason='cbmc rc=%s: %s' % (rc, out[-1500:]))
    return res


def run_callgraph(ctx, unit, ob, cfg, res, canary):
    """C15 supporting static fact from the same clang AST: in the call graph of the deserializer entry points, the only functions on a
    cycle are the container/variant routines whose contracts prove that every cycle decrements the nesting limit."""
    import ajlower
    t0 = time.time()
    AST_LOCK.acquire()
    try:
        L = ctx.lowerer(unit.get('tu', 'all'), cfg)
        L.reset_emission()
        for r in unit['roots']:
            sig = None
            if '|' in r:
                r, sig = r.split('|', 1)
            defs = L.find_functions(r, sig)
            if len(defs) != 1:
                raise ajlower.LowerError('root %s: %d definitions' % (r, len(defs)))
            L.require(defs[0]['id'])
        L.lower_all()
        nodes = set(L.emitted)
        edges = set(L.call_edges)
    except (ajlower.LowerError, Undecided) as e:
        res.update(status='undecided', reason='call graph extraction failed: %s' % e)
        return res
    finally:
        AST_LOCK.release()
    os.makedirs(ctx.unit_dir(unit, cfg), exist_ok=True)
    adj = {}
    for a, b in edges:
        if a in nodes and b in nodes:
            adj.setdefault(a, set()).add(b)
    # Tarjan SCC
    index = {}
    low = {}
    stack = []
    onstack = set()
    sccs = []
    counter = [0]
    sys.setrecursionlimit(10000)

    def strong(v):
        index[v] = low[v] = counter[0]
        counter[0] += 1
        stack.append(v)
        onstack.add(v)
        for w in adj.get(v, ()):
            if w not in index:
                strong(w)
                low[v] = min(low[v], low[w])
            elif w in onstack:
                low[v] = min(low[v], index[w])
        if low[v] == index[v]:
            comp = []
            while True:
                w = stack.pop()
                onstack.discard(w)
                comp.append(w)
                if w == v:
                    break
            sccs.append(comp)
    for v in sorted(nodes):
        if v not in index:
            strong(v)
    allow = [re.compile(x) for x in ob.get('allow_recursive', [])]
    if canary:
        allow = []
    cyclic = []
    for comp in sccs:
        if len(comp) > 1 or comp[0] in adj.get(comp[0], ()):
            cyclic.extend(comp)
    bad = [f for f in cyclic if not any(a.fullmatch(f) for a in allow)]
    res['properties'] = len(nodes)
    res['user_props'] = len(nodes)
    res['failed_props'] = [{'name': 'callgraph.' + f, 'line': '0', 'desc': 'function %s is on a recursive cycle but is not one of the routines whose contracts bound the recursion by the nesting limit' % f, 'res': 'FAILURE'} for f in sorted(bad)]
    res['sample_props'] = ['recursive (allowed): ' + f for f in sorted(cyclic)[:6]]
    res['solver_s'] = round(time.time() - t0, 2)
    res['backend'] = 'call graph of %d lowered functions, %d edges, %d on cycles' % (len(nodes), len(edges), len(cyclic))
    res['cmds'].append('callgraph over lowered closure of %s' % unit['roots'])
    res['status'] = 'failed' if bad else 'proved'
    if bad:
        res['cbmc_tail'] = '\n'.join(p['desc'] for p in res['failed_props'])
    return res


def run_census(ctx, unit, ob, cfg, res, canary):
    """C20 supporting static fact: every object with static storage duration declared under /repo/src is const/constexpr,
    except allow-listed stateless singletons; plus a textual scan of every header (covers #if branches the TU does not compile)."""
    import ajlower
    t0 = time.time()
    try:
        path = ctx.ensure_ast(unit.get('tu', 'census'), cfg)
    except Undecided as e:
        res.update(status='undecided', reason=str(e))
        return res
    L = ajlower.Lowerer(ajlower.load_ast(path))
    os.makedirs(ctx.unit_dir(unit, cfg), exist_ok=True)
    allow = set(ob.get('allow', []))
    if canary:
        allow = set()
    src = os.path.join(REPO, 'src')
    items = L.static_census(src)
    bad = []
    for it in items:
        if it['const']:
            continue
        if it['name'] in allow:
            # allow-listed objects must stay stateless: a record without data members
            t = None
            try:
                t = L.rtype_s(it['type'])
            except Exception:
                t = None
            if t and t[0] == 'rec' and t[1] in L.records and L.record_fields(L.records[t[1]]):
                bad.append(dict(it, why='allow-listed singleton now has data members'))
            continue
        bad.append(dict(it, why='mutable object with static storage duration'))
    # textual scan of all headers, all preprocessor branches
    rx = re.compile(r'^\s*(static|thread_local)\s+(?!const\b|constexpr\b|inline\b)[^(;]*(;|=[^(;]*;)')
    allow_text = set(ob.get('allow_text', []))
    nscan = 0
    for dp, dn, fn in os.walk(src):
        for f in fn:
            if not f.endswith(('.hpp', '.h')):
                continue
            p = os.path.join(dp, f)
            for i, line in enumerate(open(p, errors='replace'), 1):
                nscan += 1
                if rx.match(line) and ' const ' not in line:
                    key = '%s:%s' % (os.path.relpath(p, REPO), line.strip())
                    if key not in allow_text or canary:
                        bad.append({'name': line.strip(), 'file': p, 'line': i, 'type': '', 'why': 'textual scan: static/thread_local declaration that is not const'})
    res['properties'] = len(items) + 1
    res['user_props'] = len(items) + 1
    res['failed_props'] = [{'name': 'census.%s' % b['name'], 'line': str(b['line']), 'desc': '%s: %s (%s:%s)' % (b['why'], b['name'], b['file'], b['line']), 'res': 'FAILURE'} for b in bad]
    res['sample_props'] = ['census: %s %s const=%s' % (i['name'], i['type'], i['const']) for i in items[:3]]
    res['solver_s'] = round(time.time() - t0, 2)
    res['backend'] = 'clang AST census + textual scan (%d declarations, %d source lines)' % (len(items), nscan)
    res['cmds'].append('static_census(%s) over %s' % (src, path))
    res['status'] = 'failed' if bad else 'proved'
    if bad:
        res['cbmc_tail'] = '\n'.join(p['desc'] for p in res['failed_props'])
    return res


# -------------------------------------------------------------------- native replay
NATIVE_RT = os.path.join(ROOT, 'contracts', 'native_rt.c')


def native_build(ctx, unit, ob, cfg):
    """build the harness natively against the real C++ code; returns path of executable or raises Undecided"""
    d = ctx.unit_dir(unit, cfg)
    exe = os.path.join(d, ob['id'] + '.native')
    spec = os.path.join(ROOT, unit['spec'])
    defs = ['-DVERIF_NATIVE=1', '-DCFG_' + cfg + '=1'] + ctx.configs[cfg] + ['-D' + x for x in ob.get('defines', ())]
    o1 = os.path.join(d, ob['id'] + '.spec.o')
    o2 = os.path.join(d, 'shim.o')
    o3 = os.path.join(d, 'native_rt.o')
    cmds = [
        ['gcc', '-std=gnu11', '-g', '-O0', '-fsanitize=address,undefined', '-fno-sanitize-recover=undefined', '-c', '-w',
         '-DVERIF_HARNESS=' + ob['harness']] + defs + ['-I', d, '-I', os.path.join(ROOT, 'contracts'), spec, '-o', o1],
        ['g++', '-std=c++17', '-g', '-O0', '-fsanitize=address,undefined', '-fno-sanitize-recover=undefined', '-fno-access-control', '-c', '-w',
         '-I', os.path.join(REPO, 'src'), '-I', os.path.join(ROOT, 'contracts')] + ctx.configs[cfg] +
        [os.path.join(d, 'shim.cpp'), '-o', o2],
        ['gcc', '-std=gnu11', '-g', '-O0', '-c', '-DVERIF_NATIVE=1', '-DVERIF_HARNESS=' + ob['harness'], '-I', os.path.join(ROOT, 'contracts'), NATIVE_RT, '-o', o3],
        ['g++', '-fsanitize=address,undefined', o1, o2, o3, '-o', exe],
    ]
    for c in cmds:
        rc, out, dt = sh(c, 300)
        if rc != 0:
            raise Undecided('native build failed: %s\n%s' % (' '.join(c), out[-3000:]))
    return exe


def native_run(exe, inputs, timeout=60):
    """run harness natively with the given input list. returns dict(assert_failures, assume_failed, exhausted, sanitizer, outputs, rc)"""
    import tempfile
    with tempfile.NamedTemporaryFile('w', suffix='.in', delete=False, dir=os.path.dirname(exe)) as f:
        for i in inputs:
            f.write('%s %d\n' % (i['fn'], i['value']))
        path = f.name
    env = dict(os.environ, ASAN_OPTIONS='detect_leaks=0:abort_on_error=0', UBSAN_OPTIONS='print_stacktrace=1')
    try:
        p = subprocess.run([exe, path], stdout=subprocess.PIPE, stderr=subprocess.PIPE, timeout=timeout, env=env)
        out = p.stdout.decode('utf-8', 'replace')
        err = p.stderr.decode('utf-8', 'replace')
        rc = p.returncode
    except subprocess.TimeoutExpired:
        out, err, rc = '', 'timeout', -9
    os.unlink(path)
    r = {'rc': rc, 'assert_failures': re.findall(r'^ASSERT-FAIL (.*)$', out, re.M),
         'assume_failed': re.findall(r'^ASSUME-FAIL (.*)$', out, re.M),
         'exhausted': 'INPUT-EXHAUSTED' in out,
         'outputs': re.findall(r'^OUT (\S+) (\S+)$', out, re.M),
         'sanitizer': (err[-3000:] if ('ERROR: AddressSanitizer' in err or 'runtime error' in err or rc not in (0, 3, 4)) else '')}
    return r


# -------------------------------------------------------------------- property run
def select(ctx, prop, tier):
    jobs = []
    for u in ctx.units.values():
        for ob in u['obligations']:
            if prop not in ob.get('props', u.get('props', ())):
                continue
            if ob.get('tier', 'quick') == 'thorough' and tier != 'thorough':
                continue
            cfgs = ob.get('configs', u.get('configs', ['def64']))
            if tier != 'thorough':
                cfgs = [c for c in cfgs if c in ob.get('quick_configs', u.get('quick_configs', cfgs[:1]))]
            for cfg in cfgs:
                jobs.append((u, ob, cfg))
    return jobs


def load_known():
    p = os.path.join(ROOT, 'known_findings.json')
    if os.path.exists(p):
        return load_json(p)
    return []


def match_known(known, prop, res):
    """a failing obligation is a known finding iff unit+obligation+config match an entry with status 'known' AND every
    failed cbmc property of the run is listed in the entry (a new failing property in the same unit is still a violation)"""
    for k in known:
        if k.get('status') != 'known':
            continue
        if prop not in k.get('properties', [k.get('property')]):
            continue
        if k['unit'] != res['unit'] or k['obligation'] != res['ob']:
            continue
        if k.get('config') not in (None, '*', res['config']):
            continue
        allowed = k.get('failing_checks', [])
        failing = [p['desc'] for p in res.get('failed_props', [])]
        if all(any(a in f for a in allowed) for f in failing):
            return k
    return None


def write_replay(prop, res, native=None):
    d = os.path.join(REPLAYS, prop)
    os.makedirs(d, exist_ok=True)
    path = os.path.join(d, '%s.%s.%s.json' % (res['unit'], res['ob'], res['config']))
    doc = {'property': prop, 'unit': res['unit'], 'obligation': res['ob'], 'config': res['config'],
           'failed_checks': res.get('failed_props'), 'cbmc_output': res.get('cbmc_tail'),
           'inputs': res.get('trace_inputs'), 'trace_failed': res.get('trace_failed'), 'commands': res.get('cmds'),
           'bounded_counterexample_search': res.get('search'),
           'native': native}
    json.dump(doc, open(path, 'w'), indent=1)
    return path


def run_property(prop, tier, seed, jobs_n):
    t_start = time.time()
    ctx = Ctx()
    jobs = select(ctx, prop, tier)
    only = os.environ.get('VERIF_ONLY')  # development aid: regex on unit/obligation/config; evidence must then go elsewhere
    if only:
        if not os.environ.get('VERIF_EVIDENCE_DIR'):
            print('VERIF_ONLY needs VERIF_EVIDENCE_DIR (a partial run must not overwrite the evidence)')
            return 2
        jobs = [(u, ob, cfg) for u, ob, cfg in jobs if re.search(only, '%s/%s/%s' % (u['unit'], ob['id'], cfg))]
    meta = load_json(os.path.join(ROOT, 'props_meta.json')).get(prop, {})
    level = meta.get('level', 'proof')
    undecided = []
    if not jobs:
        print('UNDECIDED property=%s reason=no obligations registered' % prop)
        return 2
    # lowering (sequential: shares the AST)
    lowered = {}
    for u, ob, cfg in jobs:
        k = (u['unit'], cfg)
        if k in lowered:
            continue
        try:
            lowered[k] = 'census' if u.get('kind') in ('census', 'callgraph') else ctx.lower_unit(u, cfg)
        except Undecided as e:
            lowered[k] = None
            undecided.append({'unit': u['unit'], 'config': cfg, 'reason': str(e)})
    if not any(u.get('kind') == 'callgraph' for u, ob, cfg in jobs):
        ctx.lowerers.clear()
    results = []
    canaries = []
    covers = []
    with cf.ThreadPoolExecutor(max_workers=jobs_n) as ex:
        futs = {}
        for u, ob, cfg in jobs:
            if lowered[(u['unit'], cfg)] is None:
                continue
            futs[ex.submit(run_obligation, ctx, u, ob, cfg, tier, False, True)] = (u, ob, cfg, False)
            if ob.get('canary'):
                futs[ex.submit(run_obligation, ctx, u, ob, cfg, tier, True, False)] = (u, ob, cfg, True)
            if ob.get('covers'):
                futs[ex.submit(run_obligation, ctx, u, ob, cfg, tier, False, tier == 'thorough' and u.get('native', True) and ob.get('mode') != 'dfcc', True)] = (u, ob, cfg, 'cover')
        for f in cf.as_completed(futs):
            u, ob, cfg, is_canary = futs[f]
            try:
                r = f.result()
            except Exception as e:  # tool crash
                r = {'unit': u['unit'], 'ob': ob['id'], 'config': cfg, 'status': 'undecided', 'reason': 'driver exception %r' % e,
                     'canary': is_canary, 'class': ob.get('class', 'U')}
            if is_canary == 'cover':
                covers.append(r)
            else:
                (canaries if is_canary else results).append(r)
    # expected obligation counts (vacuity guard i): the number of USER-LEVEL cbmc properties (harness CHECKs, stub
    # preconditions, loop-invariant / assigns / decreases checks) must not drop below what was recorded when the unit was
    # written. Automatically generated pointer/bounds/overflow checks are not counted: their number changes with harmless edits.
    exp_path = os.path.join(ROOT, 'expected_counts.json')
    expected = load_json(exp_path) if os.path.exists(exp_path) else {}
    if os.environ.get('VERIF_RECORD_COUNTS'):
        for r in results:
            if r.get('status') == 'proved':
                expected['%s/%s/%s' % (r['unit'], r['ob'], r['config'])] = {'user': r.get('user_props', 0), 'total': r['properties']}
        json.dump(expected, open(exp_path, 'w'), indent=1, sort_keys=True)
    # fallback for units whose loop contracts could not be spliced / instrumented on this tree (the loop structure changed):
    # bounded counterexample search with the same harness; only a natively reproduced failure becomes a violation
    pending_search = []
    for r in results:
        u = ctx.units[r['unit']]
        if not (u.get('loops') or u.get('loops_by_config')):
            continue
        dropped = (r['unit'], r['config']) in ctx.loops_dropped
        instr_failed = r['status'] == 'undecided' and ('apply-loop-contracts failed' in (r.get('reason') or '') or 'goto-cc failed' in (r.get('reason') or ''))
        if not (dropped or instr_failed):
            continue
        ob = [o for o in u['obligations'] if o['id'] == r['ob']][0]
        why = ctx.loops_dropped.get((r['unit'], r['config'])) or r.get('reason')
        if instr_failed and not dropped:
            try:
                ctx.lower_unit(u, r['config'], drop_loops=True)
            except Undecided:
                continue
        pending_search.append((r, u, ob, why))
    # (the searches run in parallel: a changed loop may send every obligation of a unit here)
    with cf.ThreadPoolExecutor(max_workers=jobs_n) as ex:
        futs = {ex.submit(run_obligation, ctx, u, ob, r['config'], tier, False, True, False, True): (r, ob, why) for r, u, ob, why in pending_search}
        for f in cf.as_completed(futs):
            r, ob, why = futs[f]
            try:
                sr = f.result()
            except Exception as e:
                sr = {'status': 'undecided', 'reason': 'driver exception %r' % e}
            if sr.get('status') == 'failed' and sr.get('trace_inputs'):
                r.update(status='failed', failed_props=sr.get('failed_props'), trace_inputs=sr['trace_inputs'], cbmc_tail=sr.get('cbmc_tail'),
                         search={'unwind': ob.get('search_unwind', 6), 'failed_checks': sr.get('failed_props'), 'loop_contracts_not_applicable': (why or '')[:300]},
                         search_only=True)
            else:
                r.update(status='undecided', reason='loop contracts do not apply to this tree (%s); bounded search (unwind %s) found no failure' % ((why or '')[:200], ob.get('search_unwind', 6)))
    # an obligation that fails ONLY by unwinding assertions has met a loop/recursion its bound was not written for (the code
    # gained a loop): that is not yet a verdict. The bounded search decides: a failing user-level check there is a violation
    # (replayed natively where the unit allows), nothing found is undecided.
    for r in results:
        fp = r.get('failed_props') or []
        if r.get('status') != 'failed' or r.get('search_only') or not fp:
            continue
        if not all('unwinding assertion' in p['desc'] or 'recursion unwinding' in p['desc'] for p in fp):
            continue
        u = ctx.units[r['unit']]
        ob = [o for o in u['obligations'] if o['id'] == r['ob']][0]
        if ob.get('kind'):
            continue
        sr = run_obligation(ctx, u, ob, r['config'], tier, False, True, False, True)
        user_fail = [p for p in (sr.get('failed_props') or []) if USER_PROP_RE.search(p['name']) and 'unwinding' not in p['desc']]
        if sr.get('status') == 'failed' and user_fail:
            r.update(failed_props=sr.get('failed_props'), trace_inputs=sr.get('trace_inputs'), cbmc_tail=sr.get('cbmc_tail'),
                     search={'unwind': ob.get('search_unwind', 6), 'failed_checks': sr.get('failed_props'), 'reason': 'unwinding bound exceeded on this tree'},
                     search_done=True)
        else:
            r.update(status='undecided', reason='unwinding bound %s exceeded (the code has a loop or recursion this obligation was not written for) and the bounded search found no failing check' % ob.get('unwind', 8))
    # an obligation that TIMES OUT although it has no loop contract may have met an unbounded loop the code gained (cbmc unwinds
    # for ever): the bounded search decides whether a user-level check fails within a few iterations; nothing found stays undecided
    pending_to = []
    for r in results:
        if r.get('status') != 'undecided' or not (r.get('reason') or '').startswith('cbmc timeout'):
            continue
        u = ctx.units[r['unit']]
        ob = [o for o in u['obligations'] if o['id'] == r['ob']][0]
        if ob.get('kind') or u.get('loops') or u.get('loops_by_config'):
            continue
        pending_to.append((r, u, ob))
    if pending_to:
        with cf.ThreadPoolExecutor(max_workers=jobs_n) as ex:
            futs = {ex.submit(run_obligation, ctx, u, ob, r['config'], tier, False, True, False, True): (r, ob) for r, u, ob in pending_to}
            for f in cf.as_completed(futs):
                r, ob = futs[f]
                try:
                    sr = f.result()
                except Exception as e:
                    continue
                user_fail = [p for p in (sr.get('failed_props') or []) if USER_PROP_RE.search(p['name']) and 'unwinding' not in p['desc']]
                if sr.get('status') == 'failed' and user_fail:
                    r.update(status='failed', failed_props=sr.get('failed_props'), trace_inputs=sr.get('trace_inputs'), cbmc_tail=sr.get('cbmc_tail'),
                             search={'unwind': ob.get('search_unwind', 6), 'failed_checks': sr.get('failed_props'), 'reason': 'the obligation timed out on this tree (unbounded loop?)'},
                             search_done=True)
    known = load_known()
    violations = []
    known_hits = []
    for r in results:
        key = '%s/%s/%s' % (r['unit'], r['ob'], r['config'])
        exp = expected.get(key)
        if r['status'] == 'proved' and isinstance(exp, dict) and r.get('user_props', 0) < exp.get('user', 0):
            r['status'] = 'undecided'
            r['reason'] = 'only %d user-level cbmc properties (CHECKs, contract and loop-invariant checks), %d recorded when the unit was written (dropped contract or check?)' % (r.get('user_props', 0), exp['user'])
        if r['status'] == 'undecided':
            undecided.append({'unit': r['unit'], 'ob': r['ob'], 'config': r['config'], 'reason': r.get('reason')})
        elif r['status'] == 'failed':
            k = match_known(known, prop, r)
            if k:
                known_hits.append((k, r))
            else:
                violations.append(r)
    for c in canaries:
        if c['status'] == 'proved':
            undecided.append({'unit': c['unit'], 'ob': c['ob'], 'config': c['config'], 'reason': 'canary did not fail (harness cannot detect a false postcondition)'})
        elif c['status'] == 'undecided':
            undecided.append({'unit': c['unit'], 'ob': c['ob'], 'config': c['config'], 'reason': 'canary undecided: %s' % c.get('reason')})
    for c in covers:
        if c['status'] != 'covered':
            undecided.append({'unit': c['unit'], 'ob': c['ob'], 'config': c['config'], 'reason': c.get('reason')})
    # covalidation (thorough tier): every cover-goal witness found by cbmc is replayed on the REAL C++ code; the real code must
    # pass the same CHECKs there (a mismatch means the lowering or a stub misrepresents the code: undecided, never a verdict)
    coval = {'witnesses': 0, 'replayed': 0, 'agree': 0, 'skipped': 0}
    failed_keys = {(r['unit'], r['ob'], r['config']) for r in results if r.get('status') != 'proved'}
    for c in covers:
        tr = c.get('cover_traces')
        if not tr:
            continue
        if (c['unit'], c['ob'], c['config']) in failed_keys:
            # the obligation itself failed (violation or known finding): its CHECKs are expected to fail on some witnesses too
            coval['skipped'] += len(tr)
            continue
        u = ctx.units[c['unit']]
        ob = [o for o in u['obligations'] if o['id'] == c['ob']][0]
        try:
            exe = native_build(ctx, u, ob, c['config'])
        except Undecided as e:
            coval['skipped'] += len(tr)
            continue
        for (pname, dsc, inp) in tr:
            coval['witnesses'] += 1
            nr = native_run(exe, inp)
            if nr.get('exhausted') or nr.get('assume_failed'):
                coval['skipped'] += 1
                continue
            coval['replayed'] += 1
            if nr['assert_failures'] or nr['sanitizer']:
                undecided.append({'unit': c['unit'], 'ob': c['ob'], 'config': c['config'],
                                  'reason': 'covalidate mismatch on witness of %s: real code fails %s %s (lowering or stub suspect)' % (dsc, nr['assert_failures'][:3], nr['sanitizer'][:200])})
            else:
                coval['agree'] += 1
    # native replay of violations
    viol_lines = []
    for r in violations:
        u = ctx.units[r['unit']]
        ob = [o for o in u['obligations'] if o['id'] == r['ob']][0]
        native = None
        reproduced = False
        if (u.get('loops') or u.get('loops_by_config')) and not ob.get('no_loop_contracts') and ob.get('mode') != 'dfcc' and not r.get('search_only') and not r.get('search_done'):
            # a loop-contract counterexample may start from an unreachable havocked state: look for a reachable one
            # with the same harness, loops unwound a few times instead of abstracted (bounded counterexample search)
            sr = run_obligation(ctx, u, ob, r['config'], tier, False, True, False, True)
            if sr.get('status') == 'failed' and sr.get('trace_inputs'):
                r['trace_inputs'] = sr['trace_inputs']
                r['search'] = {'unwind': ob.get('search_unwind', 6), 'failed_checks': sr.get('failed_props')}
        cb_descs = [p['desc'] for p in r.get('failed_props', [])] + [p['desc'] for p in (r.get('search') or {}).get('failed_checks', [])]
        if r.get('trace_inputs') is not None and u.get('native', True):
            try:
                exe = native_build(ctx, u, ob, r['config'])
                native = native_run(exe, r['trace_inputs'])
                # reproduced = the real code fails one of the checks cbmc failed (or a sanitizer fires)
                reproduced = bool([a for a in native['assert_failures'] if any(a in dsc or dsc in a for dsc in cb_descs)] or native['sanitizer'])
            except Undecided as e:
                native = {'error': str(e)[-2000:]}
        modular = bool(ob.get('replace')) or (bool(u.get('loops')) and not ob.get('no_loop_contracts')) or ob.get('mode') == 'dfcc'
        # a unit that replaces REAL callees by contract stubs is modular too: natively the real callees run, so cbmc's input
        # (chosen against the stubs' nondeterminism) need not fail there
        modular = modular or any(not re.match(r'^(StubReader|LogWriter|LogBuilder|Allocator)__', st) for st in (u.get('stubs') or []))
        path = write_replay(prop, r, native)
        if r.get('search_only') and not reproduced:
            undecided.append({'unit': r['unit'], 'ob': r['ob'], 'config': r['config'],
                              'reason': 'loop contracts do not apply to this tree and the bounded counterexample was not reproduced on the real code; see ' + path})
            continue
        if reproduced:
            viol_lines.append('VIOLATION property=%s replay=%s' % (prop, path))
        elif native is not None and 'error' not in native and not modular and not native.get('exhausted') and not native.get('assume_failed'):
            # the real code satisfies the postcondition on cbmc's own input and nothing was abstracted: lowering/stub suspect
            undecided.append({'unit': r['unit'], 'ob': r['ob'], 'config': r['config'],
                              'reason': 'cbmc counterexample not reproduced on the real code (lowering or stub suspect); see ' + path})
        else:
            viol_lines.append('VIOLATION property=%s replay=%s no-failing-input-found' % (prop, path))
    for k, r in known_hits:
        print('KNOWN-FINDING: property=%s %s [unit %s obligation %s config %s]' % (prop, k['what'], r['unit'], r['ob'], r['config']))
    # evidence
    proved = [r for r in results if r['status'] == 'proved' and r.get('class') != 'B']
    bounded = [r for r in results if r.get('class') == 'B']
    # proof-level counts: cbmc properties of the U/W obligations that this run checked and that are claimed as discharged.
    # Obligations that fail as a listed known finding are reported separately (they are not claimed), bounded ones never count.
    known_keys = set((r['unit'], r['ob'], r['config']) for k, r in known_hits)
    counted = [r for r in results if r.get('class') != 'B' and r['status'] in ('proved', 'failed') and (r['unit'], r['ob'], r['config']) not in known_keys]
    n_ob = sum(r.get('properties', 0) for r in counted)
    n_dis = sum(r.get('properties', 0) - len(r.get('failed_props', [])) for r in counted)
    funcs = {}
    for (uname, cfg), d in lowered.items():
        if d and d != 'census' and os.path.exists(os.path.join(d, 'funcs.json')):
            for cname, info in load_json(os.path.join(d, 'funcs.json')).items():
                if info.get('has_body'):
                    funcs[cname] = '%s (%s:%s)' % (info['qname'], (info.get('file') or '').replace(REPO + '/', ''), info.get('line'))
    samples = []
    for r in results[:12]:
        samples.append({'unit': r['unit'], 'obligation': r['ob'], 'config': r['config'], 'class': r.get('class'), 'mode': r.get('mode'),
                        'status': r['status'], 'cbmc_properties': r.get('properties'), 'backend': r.get('backend'),
                        'seconds': r.get('solver_s'), 'examples': r.get('sample_props')})
    ev = {
        'property_id': prop, 'tier': tier, 'seed': seed, 'level': level,
        'coverage': {
            'obligations': n_ob, 'discharged': n_dis,
            'checker_cmd': ' ; '.join(results[0].get('cmds', [])) if results else '',
            'trusted_base': load_json(os.path.join(ROOT, 'trusted_base.json')),
            'samples': samples,
            'explanation': meta.get('explanation', ''),
            'units': [{'unit': r['unit'], 'obligation': r['ob'], 'config': r['config'], 'class': r.get('class'), 'status': r['status'],
                       'cbmc_properties': r.get('properties'), 'solver_s': r.get('solver_s'), 'backend': r.get('backend'), 'mode': r.get('mode'),
                       'cover': r.get('cover')} for r in results],
            'bounded': [{'unit': r['unit'], 'obligation': r['ob'], 'bound': ctx.units[r['unit']].get('bound_note', ''), 'properties': r.get('properties'),
                         'passed': r['status'] == 'proved'} for r in bounded],
            'functions_under_contract': sorted(funcs.values()),
            'configurations_proved': sorted(set(r['config'] for r in proved)),
            'solver_seconds': round(sum(r.get('solver_s', 0) or 0 for r in results + canaries), 1),
            'canaries_failed_as_expected': sum(1 for c in canaries if c['status'] == 'failed'),
            'canaries_total': len(canaries),
            'covalidate': coval,
            'cover_goals_reached': sum(c.get('cover', [0, 0])[0] for c in covers),
            'cover_goals_total': sum(c.get('cover', [0, 0])[1] for c in covers),
            'undecided': undecided,
            'undecided_clauses': meta.get('undecided_clauses', []),
            'lemmas': meta.get('lemmas', []),
            'known_findings_reported': [k['id'] for k, r in known_hits],
            'known_finding_obligations': [{'finding': k['id'], 'unit': r['unit'], 'obligation': r['ob'], 'config': r['config'], 'cbmc_properties': r.get('properties'),
                                           'failing_checks': [p['desc'] for p in r.get('failed_props', [])]} for k, r in known_hits],
        },
        'assumptions': meta.get('assumptions', []) + load_json(os.path.join(ROOT, 'trusted_base.json')),
        'wall_s': round(time.time() - t_start, 1),
        'violations': len(viol_lines),
    }
    evdir = os.environ.get('VERIF_EVIDENCE_DIR') or os.path.join(ROOT, 'evidence')
    os.makedirs(evdir, exist_ok=True)
    json.dump(ev, open(os.path.join(evdir, prop + '.json'), 'w'), indent=1)
    print('property=%s tier=%s units=%d cbmc-properties=%d discharged=%d canaries=%d/%d undecided=%d known=%d violations=%d wall=%.0fs' % (
        prop, tier, len(results), n_ob, n_dis, ev['coverage']['canaries_failed_as_expected'], len(canaries), len(undecided), len(known_hits),
        len(viol_lines), time.time() - t_start))
    seen_reasons = set()
    for u in undecided:
        r = (u.get('reason') or '')
        short = r if len(r) <= 420 else r[:120] + ' ... ' + r[-300:]
        key = re.sub(r'0x[0-9a-f]+|/\S+|\d+', '', short)[-120:]
        if key in seen_reasons:
            continue
        seen_reasons.add(key)
        print('UNDECIDED property=%s unit=%s ob=%s config=%s reason=%s' % (prop, u.get('unit'), u.get('ob'), u.get('config'), short.replace('\n', ' | ')))
    if len(undecided) > len(seen_reasons):
        print('(%d further UNDECIDED lines with the same reasons omitted; see evidence file)' % (len(undecided) - len(seen_reasons)))
    if viol_lines:
        for l in viol_lines:
            print(l)
        return 1
    if undecided:
        return 2
    return 0


def replay(prop, path):
    doc = load_json(path)
    ctx = Ctx()
    u = ctx.units[doc['unit']]
    ob = [o for o in u['obligations'] if o['id'] == doc['obligation']][0]
    if doc.get('inputs') is None:
        print('replay file carries no inputs (no-failing-input-found); failed checks:')
        print(json.dumps(doc.get('failed_checks'), indent=1))
        return 1
    ctx.lower_unit(u, doc['config'])
    exe = native_build(ctx, u, ob, doc['config'])
    r = native_run(exe, doc['inputs'])
    print(json.dumps(r, indent=1))
    return 1 if (r['assert_failures'] or r['sanitizer']) else 0


def main():
    ap = argparse.ArgumentParser()
    ap.add_argument('prop')
    ap.add_argument('--tier', default=os.environ.get('VERIF_TIER', 'quick'))
    ap.add_argument('--replay')
    ap.add_argument('-j', type=int, default=int(os.environ.get('VERIF_JOBS', '14')))
    a = ap.parse_args()
    seed = int(os.environ.get('VERIF_SEED', '0'))
    if a.replay:
        sys.exit(replay(a.prop, a.replay))
    try:
        rc = run_property(a.prop, a.tier, seed, a.j)
    except Undecided as e:
        print('UNDECIDED property=%s reason=%s' % (a.prop, str(e)[:1500].replace('\n', ' | ')))
        rc = 2
    sys.exit(rc)


if __name__ == '__main__':
    main()
