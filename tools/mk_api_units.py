#!/usr/bin/env python3
"""Generates units/api.json (family "api": the public wrapper layer).  The unit list is regular (one modular unit per reference
type, the same harnesses compiled with REF_KIND=k), so it is written by this script instead of by hand:  python3 tools/mk_api_units.py"""
import json
import os

ROOT = os.path.dirname(os.path.dirname(os.path.abspath(__file__)))
SPEC = 'contracts/api.spec.c'

INTS = ['signedchar', 'uchar', 'short', 'ushort', 'int', 'uint', 'long', 'ulong', 'llong', 'ullong']

# ---- the verified core, cut by contract stubs in the modular units (each stub in the spec names the obligation that proves it) ----
CORE_READ = ['VariantData__asIntegral_' + t for t in INTS] + ['VariantData__isInteger_' + t for t in INTS] + [
    'VariantData__asFloat_float', 'VariantData__asFloat_double', 'VariantData__asBoolean', 'VariantData__asString',
    'VariantData__size__VariantData_p_ResourceManager_p', 'VariantData__nesting__VariantData_p_ResourceManager_p',
    'VariantData__getElement__VariantData_p_ulong_ResourceManager_p',
    'VariantData__getMember_StaticStringAdapter__VariantData_p_StaticStringAdapter_ResourceManager_p',
]
CORE_WRITE = ['VariantData__setInteger_' + t for t in INTS] + [
    'VariantData__setFloat_float', 'VariantData__setFloat_double', 'VariantData__setBoolean', 'VariantData__clear__ResourceManager_p',
    'VariantData__setString_StaticStringAdapter__StaticStringAdapter_ResourceManager_p',
    'VariantData__setString_ZeroTerminatedRamString__ZeroTerminatedRamString_ResourceManager_p',
    'VariantData__setString_JsonStringAdapter__JsonStringAdapter_ResourceManager_p',
    'VariantData__setRawString_constchar_p__SerializedValue_constchar_p_ResourceManager_p',
    'copyVariant', 'JsonArray__set', 'JsonObject__set',
    'VariantData__addElement__VariantData_p_ResourceManager_p',
    'ArrayData__addValue_constint_r__int_r_ResourceManager_p',
    'ArrayData__addValue_constchar_p_r__char_p_r_ResourceManager_p',
    'ArrayData__addValue_constJsonVariantConst_r__JsonVariantConst_r_ResourceManager_p',
    'VariantData__getOrAddElement', 'VariantData__getOrAddMember_StaticStringAdapter',
    'VariantData__removeElement__VariantData_p_ulong_ResourceManager_p',
    'VariantData__removeMember_StaticStringAdapter__VariantData_p_StaticStringAdapter_ResourceManager_p',
]

REFS = [  # unit suffix, REF_KIND, C++ class of the reference (VariantRefBase<...> argument)
    ('variant', 0, 'JsonVariant'),
    ('docmember', 1, 'MemberProxy<JsonDocument &, const char *>'),
    ('objmember', 2, 'MemberProxy<JsonObject, const char *>'),
    ('docelement', 3, 'ElementProxy<JsonDocument &>'),
    ('arrelement', 4, 'ElementProxy<JsonArray>'),
    ('nested', 5, 'MemberProxy<MemberProxy<JsonDocument &, const char *>, const char *>'),
]


def esc(s):
    out = ''
    for ch in s:
        out += '\\' + ch if ch in '*&()[]<>|.+?' else ch
    return out


def ob(oid, harness, canary, props, defines, cls='U', **kw):
    d = {'id': oid, 'harness': harness, 'class': cls, 'unwind': 10, 'canary': canary, 'covers': True, 'defines': defines, 'props': props}
    d.update(kw)
    return d


def ref_unit(suffix, kind, cls):
    defs = ['U_REF=1', 'REF_KIND=%d' % kind]
    return {
        'unit': 'api_ref_' + suffix, 'props': ['C04', 'C05', 'C06', 'C13'], 'tu': 'api',
        'configs': ['def64', 'nodbl', 'noll', 's1p16'], 'quick_configs': ['def64', 'nodbl'],
        'roots': ['re:VariantRefBase<%s>::.*' % esc(cls)],
        'stubs': CORE_READ + CORE_WRITE,
        'spec': SPEC, 'native': False,
        'obligations': [
            # (the text of this layer differs between configurations only where JsonFloat / JsonInteger / SlotId appear: the arithmetic
            #  obligations run under nodbl in the quick tier too, everything runs under all four configurations in the thorough tier)
            ob('reads_arith', 'h_ref_reads_arith', 'CANARY_REF_READS_ARITH', ['C13', 'C06', 'C04'], defs),
            ob('reads_other', 'h_ref_reads_other', 'CANARY_REF_READS_OTHER', ['C04', 'C06', 'C14'], defs, quick_configs=['def64']),
            ob('set_scalar', 'h_ref_set_scalar', 'CANARY_REF_SET_SCALAR', ['C05', 'C04'], defs),
            ob('set_other', 'h_ref_set_other', 'CANARY_REF_SET_OTHER', ['C05', 'C04', 'C14'], defs, quick_configs=['def64']),
            ob('to_clear', 'h_ref_to_clear', 'CANARY_REF_TO_CLEAR', ['C04', 'C05'], defs, quick_configs=['def64']),
            ob('collection_ops', 'h_ref_collection_ops', 'CANARY_REF_COLL', ['C04', 'C05', 'C06'], defs, quick_configs=['def64']),
        ],
    }


def const_unit():
    defs = ['U_REF=1', 'REF_KIND=6']
    return {
        'unit': 'api_ref_const', 'props': ['C04', 'C06', 'C13'], 'tu': 'api',
        'configs': ['def64', 'nodbl', 'noll', 's1p16'], 'quick_configs': ['def64', 'nodbl'],
        'roots': ['re:JsonVariantConst::.*'],
        'stubs': CORE_READ,
        'spec': SPEC, 'native': False,
        'obligations': [
            ob('reads_arith', 'h_ref_reads_arith', 'CANARY_REF_READS_ARITH', ['C13', 'C06', 'C04'], defs),
            ob('reads_other', 'h_ref_reads_other', 'CANARY_REF_READS_OTHER', ['C04', 'C06', 'C14'], defs),
        ],
    }


ADDVALUE = [  # (suffix used in obligation ids / harness macro, C name of ArrayData::addValue<T> member, C name of VariantRefBase<JsonVariant>::set it must use)
    ('bool', 'ArrayData__addValue_const_Bool_r___Bool_r_ResourceManager_p', 'VariantRefBase_JsonVariant__set__Bool'),
    ('signedchar', 'ArrayData__addValue_constsignedchar_r__signedchar_r_ResourceManager_p', 'VariantRefBase_JsonVariant__set_signedchar'),
    ('uchar', 'ArrayData__addValue_constuchar_r__uchar_r_ResourceManager_p', 'VariantRefBase_JsonVariant__set_uchar'),
    ('short', 'ArrayData__addValue_constshort_r__short_r_ResourceManager_p', 'VariantRefBase_JsonVariant__set_short'),
    ('ushort', 'ArrayData__addValue_constushort_r__ushort_r_ResourceManager_p', 'VariantRefBase_JsonVariant__set_ushort'),
    ('int', 'ArrayData__addValue_constint_r__int_r_ResourceManager_p', 'VariantRefBase_JsonVariant__set_int'),
    ('uint', 'ArrayData__addValue_constuint_r__uint_r_ResourceManager_p', 'VariantRefBase_JsonVariant__set_uint'),
    ('long', 'ArrayData__addValue_constlong_r__long_r_ResourceManager_p', 'VariantRefBase_JsonVariant__set_long'),
    ('ulong', 'ArrayData__addValue_constulong_r__ulong_r_ResourceManager_p', 'VariantRefBase_JsonVariant__set_ulong'),
    ('float', 'ArrayData__addValue_constfloat_r__float_r_ResourceManager_p', 'VariantRefBase_JsonVariant__set_float'),
    ('double', 'ArrayData__addValue_constdouble_r__double_r_ResourceManager_p', 'VariantRefBase_JsonVariant__set_double'),
    ('cstr', 'ArrayData__addValue_constchar_p_r__char_p_r_ResourceManager_p', 'VariantRefBase_JsonVariant__set_constchar'),
    ('chars', 'ArrayData__addValue_char_p_r__char_p_r_ResourceManager_p', 'VariantRefBase_JsonVariant__set_char'),
    ('jsonstring', 'ArrayData__addValue_constJsonString_r__JsonString_r_ResourceManager_p', 'VariantRefBase_JsonVariant__set_JsonString'),
    ('serialized', 'ArrayData__addValue_constSerializedValue_constchar_p_r__SerializedValue_constchar_p_r_ResourceManager_p', 'VariantRefBase_JsonVariant__set_SerializedValue_constchar_p'),
    ('variantconst', 'ArrayData__addValue_constJsonVariantConst_r__JsonVariantConst_r_ResourceManager_p', 'VariantRefBase_JsonVariant__set_JsonVariantConst'),
    ('variant', 'ArrayData__addValue_constJsonVariant_r__JsonVariant_r_ResourceManager_p', 'VariantRefBase_JsonVariant__set_JsonVariant'),
    ('arrayconst', 'ArrayData__addValue_constJsonArrayConst_r__JsonArrayConst_r_ResourceManager_p', 'VariantRefBase_JsonVariant__set_JsonArrayConst'),
    ('nullptr', 'ArrayData__addValue_void_pconst_r__void_p_r_ResourceManager_p', 'VariantRefBase_JsonVariant__set_void_p'),
]


def array_unit():
    defs = ['U_ARRAY=1']
    return {
        'unit': 'api_array', 'props': ['C04', 'C05', 'C06'], 'tu': 'api',
        'configs': ['def64', 's1p16'], 'quick_configs': ['def64', 's1p16'],
        'roots': ['re:JsonArray::.*', 're:JsonArrayConst::.*'],
        'stubs': [a[1] for a in ADDVALUE] + [
            'ArrayData__addElement__ResourceManager_p', 'CollectionData__clear__ResourceManager_p', 'ArrayData__removeElement__ulong_ResourceManager_p',
            'CollectionData__removeOne', 'CollectionData__size', 'VariantData__nesting__VariantData_p_ResourceManager_p',
            'ResourceManager__getVariant', 'VariantData__clear__ResourceManager_p', 'ArrayData__getElement__ulong_ResourceManager_p'],
        'spec': SPEC, 'native': False,
        'obligations': [
            ob('array_add_value', 'h_array_add_value', 'CANARY_ARRAY_ADD', ['C04', 'C05'], defs),
            ob('array_ops', 'h_array_ops', 'CANARY_ARRAY_OPS', ['C04', 'C05', 'C06'], defs),
            ob('array_set_le3', 'h_array_set', 'CANARY_ARRAY_SET', ['C04', 'C05'], defs + ['SET_ALIAS=0'], cls='B'),
            ob('array_set_itself', 'h_array_set', 'CANARY_ARRAY_SET', ['C04'], defs + ['SET_ALIAS=1'], cls='B'),
            ob('array_const_ops', 'h_array_const_ops', 'CANARY_ARRAY_CONST', ['C04', 'C06'], defs),
        ],
    }


def object_unit():
    defs = ['U_OBJECT=1']
    return {
        'unit': 'api_object', 'props': ['C04', 'C05', 'C06'], 'tu': 'api',
        'configs': ['def64', 's1p16'], 'quick_configs': ['def64', 's1p16'],
        'roots': ['re:JsonObject::.*', 're:JsonObjectConst::.*'],
        'stubs': ['CollectionData__clear__ResourceManager_p', 'CollectionData__removePair', 'CollectionData__size', 'VariantData__nesting__VariantData_p_ResourceManager_p',
                  'ResourceManager__getVariant', 'VariantData__asString', 'VariantData__getOrAddMember_JsonStringAdapter', 'copyVariant',
                  'ObjectData__removeMember_StaticStringAdapter__StaticStringAdapter_ResourceManager_p',
                  'ObjectData__removeMember_ZeroTerminatedRamString__ZeroTerminatedRamString_ResourceManager_p',
                  'ObjectData__removeMember_JsonStringAdapter__JsonStringAdapter_ResourceManager_p',
                  'ObjectData__getMember_StaticStringAdapter__StaticStringAdapter_ResourceManager_p',
                  'ObjectData__getMember_JsonStringAdapter__JsonStringAdapter_ResourceManager_p'],
        'spec': SPEC, 'native': False,
        'obligations': [
            ob('object_ops', 'h_object_ops', 'CANARY_OBJECT_OPS', ['C04', 'C05', 'C06'], defs),
            ob('object_set_le2', 'h_object_set', 'CANARY_OBJECT_SET', ['C04', 'C05'], defs + ['SET_ALIAS=0'], cls='B'),
            ob('object_set_itself', 'h_object_set', 'CANARY_OBJECT_SET', ['C04'], defs + ['SET_ALIAS=1'], cls='B'),
            ob('object_const_ops', 'h_object_const_ops', 'CANARY_OBJECT_CONST', ['C04', 'C06'], defs),
        ],
    }


E2E_COMMON = ['JsonDocument::JsonDocument|Allocator *', 'JsonDocument::~JsonDocument', 'ResourceManager::ResourceManager', 'ResourceManager::clear',
              'ResourceManager::allocVariant', 'ResourceManager::allocExtension', 'ResourceManager::getExtension', 'ResourceManager::getVariant']
CUT_CONTAINERS = ['VariantRefBase_JsonVariant__set_JsonArrayConst', 'VariantRefBase_JsonVariant__set_JsonObjectConst', 'CollectionData__clear__ResourceManager_p']


def e2e_units():
    def e(oid, harness, canary, props, defines, cls='U', **kw):
        d = ob(oid, harness, canary, props, ['U_E2E=1'] + defines, cls, **kw)
        d['unwind'] = 8
        d['cbmc'] = ['--object-bits', '10']
        return d
    units = [
        {'unit': 'api_e2e_read', 'props': ['C06', 'C04'], 'tu': 'api', 'configs': ['def64', 's1p16'], 'quick_configs': ['s1p16'],
         'roots': E2E_COMMON + ['re:api::e2e_member_.*', 're:api::e2e_element_.*', 're:api::e2e_nested_.*'],
         'stubs': ['DefaultAllocator__instance'], 'spec': SPEC, 'native': True,
         'obligations': [e('read_missing_never_allocates', 'h_e2e_read_missing', 'CANARY_E2E_READ', ['C06', 'C04'], ['E2E_READ=1'], cls='B'),
                         e('read_missing_member_of_new_document', 'h_e2e_read_missing', 'CANARY_E2E_READ', ['C06', 'C04'], ['E2E_READ=1', 'READ_SEL=0', 'READ_ROOT=0x00'], cls='B'),
                         e('read_missing_element_of_empty_array', 'h_e2e_read_missing', 'CANARY_E2E_READ', ['C06', 'C04'], ['E2E_READ=1', 'READ_SEL=6', 'READ_ROOT=0x40'], cls='B'),
                         e('read_missing_nested_member_of_empty_object', 'h_e2e_read_missing', 'CANARY_E2E_READ', ['C06', 'C04'], ['E2E_READ=1', 'READ_SEL=7', 'READ_ROOT=0x20'], cls='B')]},
        {'unit': 'api_e2e_set', 'props': ['C05', 'C04'], 'tu': 'api', 'configs': ['s1p16'], 'quick_configs': ['s1p16'],
         'roots': E2E_COMMON + ['api::e2e_set_variant'],
         'stubs': ['DefaultAllocator__instance'] + CUT_CONTAINERS, 'spec': SPEC, 'native': True,
         'obligations': [e('set_twice_reports_each_failure_' + n, 'h_e2e_set_twice', 'CANARY_E2E_SET', ['C05', 'C04'], ['E2E_SET=1', 'EXT_KIND=' + k], cls='B', timeout=300)
                         for n, k in (('uint64', '0x1A'), ('double', '0x1E'))]},
        {'unit': 'api_e2e_float', 'props': ['C13'], 'tu': 'api', 'configs': ['def64', 'nodbl'], 'quick_configs': ['def64', 'nodbl'],
         'roots': E2E_COMMON + ['api::e2e_as_float', 'api::e2e_as_double'],
         'stubs': ['DefaultAllocator__instance', 'parseNumber_float', 'parseNumber_double'], 'spec': SPEC, 'native': True,
         'obligations': [e('as_float_of_stored_integer_is_nearest', 'h_e2e_as_float', 'CANARY_E2E_FLOAT', ['C13'], ['E2E_FLOAT=1'], timeout=300)]},
        {'unit': 'api_e2e_copy', 'props': ['C04', 'C06'], 'tu': 'api', 'configs': ['s1p16'], 'quick_configs': ['s1p16'],
         'roots': E2E_COMMON + ['copyVariant', 'VariantData::clear|VariantData *, ResourceManager *'],
         'stubs': ['DefaultAllocator__instance'] + CUT_CONTAINERS, 'spec': SPEC, 'native': True,
         'obligations': [e('copy_owns_its_own_slot_' + n, 'h_e2e_copy_ext', 'CANARY_E2E_COPY', ['C04', 'C06'], ['E2E_COPY=1', 'EXT_KIND=' + k], cls='B', timeout=300)
                         for n, k in (('uint64', '0x1A'), ('int64', '0x1C'), ('double', '0x1E'))]},
        # (api_e2e_add takes ~80 s: above the quick-tier budget, so thorough tier; api_addvalue decides the same clause modularly in the quick tier)
        {'unit': 'api_e2e_add', 'props': ['C19', 'C06', 'C05'], 'tu': 'api', 'configs': ['s1p16'], 'quick_configs': ['s1p16'],
         'roots': E2E_COMMON + ['api::e2e_array_add_variant', 'api::e2e_array_add_int'],
         'stubs': ['DefaultAllocator__instance'] + CUT_CONTAINERS, 'spec': SPEC, 'native': True,
         'obligations': [e('failed_add_gives_its_slot_back', 'h_e2e_add_failure', 'CANARY_E2E_ADD', ['C19', 'C06', 'C05'], ['E2E_ADD=1', 'EXT_KIND=0x1A'], cls='B', timeout=300, tier='thorough')]},
    ]
    units += [
        {'unit': 'api_e2e_unstored', 'props': ['C04'], 'tu': 'api', 'configs': ['s1p16'], 'quick_configs': ['s1p16'],
         'roots': E2E_COMMON + ['api::e2e_element_set_cstr', 'api::e2e_member_set_cstr', 'api::e2e_element_set_int'],
         'stubs': ['DefaultAllocator__instance', 'CollectionData__clear__ResourceManager_p'], 'spec': SPEC, 'native': True,
         'obligations': [e('set_true_means_stored', 'h_e2e_unstored', 'CANARY_E2E_UNSTORED', ['C04'], ['E2E_UNSTORED=1'], cls='B')]},
    ]
    for u in units:
        u['shim'] = {'tu_include': 'api.cpp'}   # the native replay links the REAL instantiations of tu/api.cpp
        if u['unit'] != 'api_e2e_float':
            u['bound_note'] = 'fixed small documents (a new / empty document, one or two fresh slots, one 16-slot pool); full value domains'   # the native replay links the REAL instantiations of tu/api.cpp
    return units


STRKIND_STUBS = [
    'JsonDocument__clear', 'VariantData__clear__ResourceManager_p',
    'VariantData__setString_StaticStringAdapter__StaticStringAdapter_ResourceManager_p',
    'VariantData__setString_ZeroTerminatedRamString__ZeroTerminatedRamString_ResourceManager_p',
    'VariantData__setString_JsonStringAdapter__JsonStringAdapter_ResourceManager_p',
    'VariantData__getOrAddMember_StaticStringAdapter', 'VariantData__getOrAddMember_ZeroTerminatedRamString', 'VariantData__getOrAddMember_JsonStringAdapter',
    'VariantData__getOrAddElement', 'VariantData__setInteger_int',
    'ArrayData__addValue_char_p_r__char_p_r_ResourceManager_p', 'ArrayData__addValue_constchar_p_r__char_p_r_ResourceManager_p',
]


def strkind_units():
    defs = ['U_STRKIND=1']
    return [
        {'unit': 'api_doc_set', 'props': ['C14', 'C04'], 'tu': 'api', 'configs': ['def64'], 'quick_configs': ['def64'],
         'roots': ['re:api::sk_doc_set_.*'], 'stubs': STRKIND_STUBS, 'spec': SPEC, 'native': False,
         'obligations': [
             ob('doc_set_mutable_char_array', 'h_sk_doc_set_array', 'CANARY_SK_DOC_ARRAY', ['C14', 'C04'], defs + ['SK_DOC=1']),
             ob('doc_set_other_sources', 'h_sk_doc_set_other', 'CANARY_SK_DOC_OTHER', ['C14', 'C04'], defs + ['SK_DOC=1']),
         ]},
        {'unit': 'api_strkind', 'props': ['C14', 'C04'], 'tu': 'api', 'configs': ['def64'], 'quick_configs': ['def64'],
         'roots': ['re:api::sk_variant_.*', 're:api::sk_member_.*', 're:api::sk_element_.*', 're:api::sk_array_.*', 're:api::sk_docadd_.*',
                   're:api::sk_dockey_.*', 're:api::sk_objkey_.*', 're:api::sk_varkey_.*'],
         'stubs': STRKIND_STUBS, 'spec': SPEC, 'native': False,
         'obligations': [
             ob('value_sources', 'h_sk_values', 'CANARY_SK_VALUES', ['C14', 'C04'], defs + ['SK_REST=1']),
             ob('array_add_sources', 'h_sk_adds', 'CANARY_SK_ADDS', ['C14', 'C04'], defs + ['SK_REST=1']),
             ob('key_sources', 'h_sk_keys', 'CANARY_SK_KEYS', ['C14', 'C04'], defs + ['SK_REST=1']),
         ]},
    ]


def doc_unit():
    defs = ['U_DOC=1']
    return {
        'unit': 'api_doc', 'props': ['C04', 'C06', 'C13'], 'tu': 'api',
        'configs': ['def64', 's1p16'], 'quick_configs': ['def64'],
        'roots': ['re:api::dq_.*'],
        'stubs': ['VariantData__asIntegral_int', 'VariantData__isInteger_int', 'VariantData__asFloat_float', 'VariantData__asFloat_double', 'VariantData__asString',
                  'VariantData__size__ResourceManager_p', 'VariantData__nesting__ResourceManager_p', 'VariantData__addElement__ResourceManager_p',
                  'ArrayData__addValue_constint_r__int_r_ResourceManager_p', 'ArrayData__addValue_constchar_p_r__char_p_r_ResourceManager_p',
                  'VariantData__getMember_StaticStringAdapter__StaticStringAdapter_ResourceManager_p', 'VariantData__getElement__ulong_ResourceManager_p',
                  'VariantData__removeElement__VariantData_p_ulong_ResourceManager_p',
                  'VariantData__removeMember_StaticStringAdapter__VariantData_p_StaticStringAdapter_ResourceManager_p'],
        'spec': SPEC, 'native': False,
        'obligations': [
            ob('doc_reads', 'h_doc_reads', 'CANARY_DOC_READS', ['C04', 'C06', 'C13'], defs),
            ob('doc_collection_ops', 'h_doc_collection_ops', 'CANARY_DOC_COLL', ['C04', 'C05'], defs),
        ],
    }


def loops_unit():
    defs = ['U_SETLOOPS=1']
    u = {
        'unit': 'api_set_loops', 'props': ['C04', 'C05'], 'tu': 'api',
        'configs': ['def64', 's1p16'], 'quick_configs': ['def64'],
        'roots': ['JsonArray::set', 'JsonObject::set'],
        'stubs': ['JsonArrayConst__begin', 'JsonArrayConst__end', 'JsonArrayConstIterator__op_ne', 'JsonArrayConstIterator__op_inc', 'JsonArrayConstIterator__op_star',
                  'JsonObjectConst__begin', 'JsonObjectConst__end', 'JsonObjectConstIterator__op_ne', 'JsonObjectConstIterator__op_inc', 'JsonObjectConstIterator__op_star',
                  'CollectionData__clear__ResourceManager_p', 'ArrayData__addValue_constJsonVariantConst_r__JsonVariantConst_r_ResourceManager_p',
                  'VariantData__getOrAddMember_JsonStringAdapter', 'copyVariant'],
        'spec': SPEC, 'loops': 'contracts/api.loops.json', 'native': False,
        'obligations': [
            ob('array_set_anylen', 'h_array_set_anylen', 'CANARY_ARRAY_SET_U', ['C04', 'C05'], defs, timeout=300),
            ob('object_set_anylen', 'h_object_set_anylen', 'CANARY_OBJECT_SET_U', ['C04', 'C05'], defs, timeout=300),
        ],
    }
    return u


def addvalue_unit():
    defs = ['U_ADDVALUE=1']
    return {
        'unit': 'api_addvalue', 'props': ['C05', 'C06', 'C19', 'C04'], 'tu': 'api',
        'configs': ['def64', 's1p16', 's2p128'], 'quick_configs': ['def64', 's1p16'],
        'roots': ['re:ArrayData::addValue<.*>'],
        'stubs': sorted(set(a[2] for a in ADDVALUE)) + ['ResourceManager__allocVariant', 'ResourceManager__freeVariant', 'ResourceManager__getVariant'],
        'spec': SPEC, 'native': False,
        'obligations': [ob('addvalue_' + a[0], 'h_addvalue_' + a[0], 'CANARY_ADDVALUE', ['C05', 'C06', 'C19', 'C04'], defs) for a in ADDVALUE],
    }


def main():
    units = [ref_unit(*r) for r in REFS] + [const_unit(), doc_unit(), array_unit(), object_unit(), loops_unit(), addvalue_unit()] + strkind_units() + e2e_units()
    json.dump(units, open(os.path.join(ROOT, 'units', 'api.json'), 'w'), indent=1)
    print('%d units, %d obligations' % (len(units), sum(len(u['obligations']) for u in units)))


if __name__ == '__main__':
    main()
