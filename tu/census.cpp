// TU for the static-storage census (C20): the library as users include it (std string/stream support enabled).
#include <ArduinoJson.h>
