// Instantiation TU (family "compare"): the pointer forms of the VariantOperators templates, which tu/all.cpp does not name.
// `variant == "str"` binds to operator==(TVariant, T*) with T = const char (more specialised than the const T& form).
// Compiled only with clang -fsyntax-only -Xclang -ast-dump=json; never linked.
#define ARDUINOJSON_ENABLE_STD_STRING 0
#define ARDUINOJSON_ENABLE_STD_STREAM 0
#define ARDUINOJSON_ENABLE_STRING_VIEW 0
#include <ArduinoJson.hpp>

using namespace ArduinoJson;
using namespace ArduinoJson::detail;

namespace force {
bool ops_ptr(JsonVariantConst a, const char* s) {
  return (a == s) | (s == a) | (a != s) | (s != a) | (a < s) | (s < a) | (a <= s) | (s <= a) | (a > s) | (s > a) | (a >= s) |
         (s >= a);
}
}  // namespace force
