// Instantiation TU (family "api"): the thin public wrapper layer between the user-facing types and the VariantData /
// CollectionData core -- VariantRefBase<TDerived> (JsonVariant, ElementProxy, MemberProxy), Converter<T>, JsonArray / JsonObject
// and ArrayData::addValue<T>.  Only parsed (clang -fsyntax-only -Xclang -ast-dump=json) and included by the generated shim.
#define ARDUINOJSON_ENABLE_STD_STRING 0
#define ARDUINOJSON_ENABLE_STD_STREAM 0
#define ARDUINOJSON_ENABLE_STRING_VIEW 0
#include <ArduinoJson.hpp>

using namespace ArduinoJson;
using namespace ArduinoJson::detail;

namespace api {
typedef MemberProxy<JsonDocument&, const char*> DocMember;
typedef MemberProxy<JsonObject, const char*> ObjMember;
typedef ElementProxy<JsonDocument&> DocElement;
typedef ElementProxy<JsonArray> ArrElement;
typedef MemberProxy<DocMember, const char*> DocMemberMember;   // doc["a"]["b"]
typedef ElementProxy<DocMember> DocMemberElement;              // doc["a"][1]

// ---- every read-only entry point of a reference type R -----------------------------------------------------------------------
template <typename R>
void reads_arith(const R& r) {
  (void)r.template as<bool>();
  (void)r.template as<signed char>();
  (void)r.template as<unsigned char>();
  (void)r.template as<short>();
  (void)r.template as<unsigned short>();
  (void)r.template as<int>();
  (void)r.template as<unsigned int>();
  (void)r.template as<long>();
  (void)r.template as<unsigned long>();
  (void)r.template as<long long>();
  (void)r.template as<unsigned long long>();
  (void)r.template as<float>();
  (void)r.template as<double>();
  (void)r.template is<bool>();
  (void)r.template is<signed char>();
  (void)r.template is<unsigned char>();
  (void)r.template is<short>();
  (void)r.template is<unsigned short>();
  (void)r.template is<int>();
  (void)r.template is<unsigned int>();
  (void)r.template is<long>();
  (void)r.template is<unsigned long>();
  (void)r.template is<long long>();
  (void)r.template is<unsigned long long>();
  (void)r.template is<float>();
  (void)r.template is<double>();
}
template <typename R>
void reads_other(const R& r) {
  (void)r.template as<const char*>();
  (void)r.template as<JsonString>();
  (void)r.template as<JsonVariantConst>();
  (void)r.template as<JsonArrayConst>();
  (void)r.template as<JsonObjectConst>();
  (void)r.template as<JsonVariant>();
  (void)r.template as<JsonArray>();
  (void)r.template as<JsonObject>();
  (void)r.template is<const char*>();
  (void)r.template is<JsonString>();
  (void)r.template is<JsonVariantConst>();
  (void)r.template is<JsonArrayConst>();
  (void)r.template is<JsonObjectConst>();
  (void)r.template is<JsonVariant>();
  (void)r.template is<JsonArray>();
  (void)r.template is<JsonObject>();
  (void)r.template is<decltype(nullptr)>();
  (void)r.isNull();
  (void)r.isUnbound();
  (void)r.size();
  (void)r.nesting();
}
// ---- every mutating entry point ----------------------------------------------------------------------------------------------
template <typename R>
void writes(const R& r, const char* s, char* cs, JsonString js, JsonVariantConst vc, JsonVariant v, JsonArrayConst ac, JsonObjectConst oc,
            JsonArray a, JsonObject o, size_t n) {
  (void)r.set(true);
  (void)r.set((signed char)1);
  (void)r.set((unsigned char)1);
  (void)r.set((short)1);
  (void)r.set((unsigned short)1);
  (void)r.set(1);
  (void)r.set(1u);
  (void)r.set(1l);
  (void)r.set(1ul);
  (void)r.set(1ll);
  (void)r.set(1ull);
  (void)r.set(1.0f);
  (void)r.set(1.0);
  (void)r.set(s);
  (void)r.set(cs);
  (void)r.set(js);
  (void)r.set(serialized(s));
  (void)r.set(serialized(s, n));
  (void)r.set(vc);
  (void)r.set(v);
  (void)r.set(ac);
  (void)r.set(oc);
  (void)r.set(a);
  (void)r.set(o);
  (void)r.set(nullptr);
  (void)r.template to<JsonArray>();
  (void)r.template to<JsonObject>();
  (void)r.template to<JsonVariant>();
  r.clear();
  (void)r.template add<JsonVariant>();
  (void)r.add(1);
  (void)r.add(s);
  (void)r.add(vc);
  r.remove(n);
  r.remove(s);
  (void)r[n];
  (void)r[s];
}

void variant(JsonVariant r, const char* s, char* cs, JsonString js, JsonVariantConst vc, JsonVariant v, JsonArrayConst ac, JsonObjectConst oc, JsonArray a,
             JsonObject o, size_t n) {
  reads_arith(r);
  reads_other(r);
  writes(r, s, cs, js, vc, v, ac, oc, a, o, n);
}
void doc_member(JsonDocument& d, const char* k, const char* s, char* cs, JsonString js, JsonVariantConst vc, JsonVariant v, JsonArrayConst ac,
                JsonObjectConst oc, JsonArray a, JsonObject o, size_t n) {
  reads_arith(d[k]);
  reads_other(d[k]);
  writes(d[k], s, cs, js, vc, v, ac, oc, a, o, n);
}
void obj_member(JsonObject ob, const char* k, const char* s, char* cs, JsonString js, JsonVariantConst vc, JsonVariant v, JsonArrayConst ac,
                JsonObjectConst oc, JsonArray a, JsonObject o, size_t n) {
  reads_arith(ob[k]);
  reads_other(ob[k]);
  writes(ob[k], s, cs, js, vc, v, ac, oc, a, o, n);
}
void doc_element(JsonDocument& d, size_t i, const char* s, char* cs, JsonString js, JsonVariantConst vc, JsonVariant v, JsonArrayConst ac,
                 JsonObjectConst oc, JsonArray a, JsonObject o, size_t n) {
  reads_arith(d[i]);
  reads_other(d[i]);
  writes(d[i], s, cs, js, vc, v, ac, oc, a, o, n);
}
void arr_element(JsonArray ar, size_t i, const char* s, char* cs, JsonString js, JsonVariantConst vc, JsonVariant v, JsonArrayConst ac,
                 JsonObjectConst oc, JsonArray a, JsonObject o, size_t n) {
  reads_arith(ar[i]);
  reads_other(ar[i]);
  writes(ar[i], s, cs, js, vc, v, ac, oc, a, o, n);
}
// nested proxies: doc["a"]["b"], doc["a"][1]
void nested(JsonDocument& d, const char* k1, const char* k2, size_t i, const char* s, char* cs, JsonString js, JsonVariantConst vc, JsonVariant v,
            JsonArrayConst ac, JsonObjectConst oc, JsonArray a, JsonObject o, size_t n) {
  reads_arith(d[k1][k2]);
  reads_other(d[k1][k2]);
  writes(d[k1][k2], s, cs, js, vc, v, ac, oc, a, o, n);
  reads_other(d[k1][i]);
  (void)d[k1][i].set(1);
}
// the const reference type
void variant_const(JsonVariantConst r, const char* s, size_t n) {
  reads_arith(r);
  (void)r.as<const char*>();
  (void)r.as<JsonString>();
  (void)r.as<JsonVariantConst>();
  (void)r.as<JsonArrayConst>();
  (void)r.as<JsonObjectConst>();
  (void)r.is<const char*>();
  (void)r.is<JsonString>();
  (void)r.is<JsonVariantConst>();
  (void)r.is<JsonArrayConst>();
  (void)r.is<JsonObjectConst>();
  (void)r.is<decltype(nullptr)>();
  (void)r.isNull();
  (void)r.size();
  (void)r.nesting();
  (void)r[n];
  (void)r[s];
}

// ---- JsonArray / JsonObject --------------------------------------------------------------------------------------------------
void array_ops(JsonArray a, JsonArrayConst src, JsonVariantConst vc, JsonVariant v, const char* s, char* cs, JsonString js, size_t n, JsonArray::iterator it) {
  (void)a.add(true);
  (void)a.add((signed char)1);
  (void)a.add((unsigned char)1);
  (void)a.add((short)1);
  (void)a.add((unsigned short)1);
  (void)a.add(1);
  (void)a.add(1u);
  (void)a.add(1l);
  (void)a.add(1ul);
  (void)a.add(1.0f);
  (void)a.add(1.0);
  (void)a.add(s);
  (void)a.add(cs);
  (void)a.add(js);
  (void)a.add(serialized(s));
  (void)a.add(vc);
  (void)a.add(v);
  (void)a.add(src);
  (void)a.add(nullptr);
  (void)a.add<JsonVariant>();
  (void)a.add<JsonArray>();
  (void)a.add<JsonObject>();
  (void)a.set(src);
  a.remove(n);
  a.remove(it);
  a.clear();
  (void)a[n];
  (void)a.size();
  (void)a.nesting();
  (void)a.isNull();
  (void)a.begin();
  (void)a.end();
  JsonVariant av = a;
  JsonVariantConst avc = a;
  JsonArrayConst aac = a;
  (void)av; (void)avc; (void)aac;
}
void object_ops(JsonObject o, JsonObjectConst src, const char* k, char* ck, JsonString jk, JsonObject::iterator it) {
  (void)o.set(src);
  o.remove(k);
  o.remove(ck);
  o.remove(jk);
  o.remove(it);
  o.clear();
  (void)o[k];
  (void)o[ck];
  (void)o[jk];
  (void)o.size();
  (void)o.nesting();
  (void)o.isNull();
  (void)o.begin();
  (void)o.end();
  JsonVariant ov = o;
  JsonVariantConst ovc = o;
  JsonObjectConst ooc = o;
  (void)ov; (void)ovc; (void)ooc;
}
void array_const_ops(JsonArrayConst a, size_t n) {
  (void)a[n];
  (void)a.size();
  (void)a.nesting();
  (void)a.isNull();
  (void)a.begin();
  (void)a.end();
}
void object_const_ops(JsonObjectConst o, const char* k) {
  (void)o[k];
  (void)o.size();
  (void)o.nesting();
  (void)o.isNull();
  (void)o.begin();
  (void)o.end();
}
// copying from a source that lives in the destination (F13 family at the collection level)
bool array_set_self(JsonArray a) {
  return a.set(a);
}
bool object_set_self(JsonObject o) {
  return o.set(o);
}
// the document's own wrappers
void doc_ops(JsonDocument& d, const char* k, size_t i, JsonVariantConst vc, const char* s) {
  (void)d[k];
  (void)d[i];
  (void)d.as<JsonVariantConst>();
  (void)d.as<JsonArray>();
  (void)d.as<JsonObject>();
  (void)d.is<JsonArray>();
  (void)d.is<JsonObject>();
  (void)d.add(1);
  (void)d.add(s);
  (void)d.add(vc);
  (void)d.add<JsonVariant>();
  d.remove(i);
  d.remove(k);
  const JsonDocument& cd = d;
  (void)cd[k];
  (void)cd[i];
  (void)cd.as<JsonVariantConst>();
  (void)cd.is<int>();
}

// ---- end-to-end entry points (unit api_e2e: real callees down to the allocator, native replay) -------------------------------
bool e2e_member_is_object(JsonDocument& d, const char* k) { return d[k].is<JsonObject>(); }
bool e2e_member_is_array(JsonDocument& d, const char* k) { return d[k].is<JsonArray>(); }
bool e2e_member_as_array_bound(JsonDocument& d, const char* k) { return !d[k].as<JsonArray>().isNull(); }
bool e2e_member_as_object_bound(JsonDocument& d, const char* k) { return !d[k].as<JsonObject>().isNull(); }
bool e2e_member_as_variant_bound(JsonDocument& d, const char* k) { return !d[k].as<JsonVariant>().isUnbound(); }
bool e2e_element_is_array(JsonDocument& d, size_t i) { return d[i].is<JsonArray>(); }
bool e2e_element_as_variant_bound(JsonDocument& d, size_t i) { return !d[i].as<JsonVariant>().isUnbound(); }
bool e2e_nested_is_object(JsonDocument& d, const char* k1, const char* k2) { return d[k1][k2].is<JsonObject>(); }
int e2e_member_as_int(JsonDocument& d, const char* k) { return d[k].as<int>(); }
bool e2e_set_variant(JsonVariant dst, JsonVariantConst src) { return dst.set(src); }
float e2e_as_float(JsonVariantConst v) { return v.as<float>(); }
double e2e_as_double(JsonVariantConst v) { return v.as<double>(); }
bool e2e_array_add_variant(JsonArray a, JsonVariantConst v) { return a.add(v); }
bool e2e_array_add_int(JsonArray a, int v) { return a.add(v); }
bool e2e_element_set_cstr(JsonDocument& d, size_t i, const char* s) { return d[i].set(s); }
bool e2e_member_set_cstr(JsonDocument& d, const char* k, const char* s) { return d[k].set(s); }
bool e2e_element_set_int(JsonDocument& d, size_t i, int v) { return d[i].set(v); }

// ---- which string storage path a wrapper selects for each SOURCE KIND (C14: char* / char[] are copied, const char* / literals are
//      kept by address, JsonString says which).  The overload is chosen at the user's call site, so each source kind needs a call.
typedef char CharBuf[8];
bool sk_doc_set_array(JsonDocument& d, CharBuf& a) { return d.set(a); }
bool sk_doc_set_ptr(JsonDocument& d, char* p) { return d.set(p); }
bool sk_doc_set_cptr(JsonDocument& d, const char* c) { return d.set(c); }
bool sk_doc_set_literal(JsonDocument& d) { return d.set("lit"); }
bool sk_doc_set_jsonstring(JsonDocument& d, JsonString s) { return d.set(s); }
bool sk_variant_set_array(JsonVariant v, CharBuf& a) { return v.set(a); }
bool sk_variant_set_ptr(JsonVariant v, char* p) { return v.set(p); }
bool sk_variant_set_cptr(JsonVariant v, const char* c) { return v.set(c); }
bool sk_variant_set_literal(JsonVariant v) { return v.set("lit"); }
bool sk_member_set_array(JsonDocument& d, const char* k, CharBuf& a) { return d[k].set(a); }
bool sk_member_set_ptr(JsonDocument& d, const char* k, char* p) { return d[k].set(p); }
bool sk_member_set_cptr(JsonDocument& d, const char* k, const char* c) { return d[k].set(c); }
bool sk_member_set_literal(JsonDocument& d, const char* k) { return d[k].set("lit"); }
void sk_member_assign_array(JsonDocument& d, const char* k, CharBuf& a) { d[k] = a; }
void sk_member_assign_ptr(JsonDocument& d, const char* k, char* p) { d[k] = p; }
void sk_member_assign_cptr(JsonDocument& d, const char* k, const char* c) { d[k] = c; }
void sk_member_assign_literal(JsonDocument& d, const char* k) { d[k] = "lit"; }
bool sk_element_set_array(JsonDocument& d, size_t i, CharBuf& a) { return d[i].set(a); }
bool sk_element_set_ptr(JsonDocument& d, size_t i, char* p) { return d[i].set(p); }
bool sk_element_set_cptr(JsonDocument& d, size_t i, const char* c) { return d[i].set(c); }
void sk_element_assign_array(JsonDocument& d, size_t i, CharBuf& a) { d[i] = a; }
void sk_element_assign_literal(JsonDocument& d, size_t i) { d[i] = "lit"; }
bool sk_array_add_array(JsonArray r, CharBuf& a) { return r.add(a); }
bool sk_array_add_ptr(JsonArray r, char* p) { return r.add(p); }
bool sk_array_add_cptr(JsonArray r, const char* c) { return r.add(c); }
bool sk_array_add_literal(JsonArray r) { return r.add("lit"); }
bool sk_docadd_array(JsonDocument& d, CharBuf& a) { return d.add(a); }
bool sk_docadd_ptr(JsonDocument& d, char* p) { return d.add(p); }
bool sk_docadd_cptr(JsonDocument& d, const char* c) { return d.add(c); }
bool sk_docadd_literal(JsonDocument& d) { return d.add("lit"); }
// keys: a member created under a key given as ... (the key is stored like a value: copied or kept by address)
bool sk_dockey_array(JsonDocument& d, CharBuf& a) { return d[a].set(1); }
bool sk_dockey_ptr(JsonDocument& d, char* p) { return d[p].set(1); }
bool sk_dockey_cptr(JsonDocument& d, const char* c) { return d[c].set(1); }
bool sk_dockey_literal(JsonDocument& d) { return d["lit"].set(1); }
bool sk_dockey_jsonstring(JsonDocument& d, JsonString s) { return d[s].set(1); }
bool sk_objkey_array(JsonObject o, CharBuf& a) { return o[a].set(1); }
bool sk_objkey_ptr(JsonObject o, char* p) { return o[p].set(1); }
bool sk_objkey_cptr(JsonObject o, const char* c) { return o[c].set(1); }
bool sk_objkey_literal(JsonObject o) { return o["lit"].set(1); }
bool sk_objkey_jsonstring(JsonObject o, JsonString s) { return o[s].set(1); }
bool sk_varkey_array(JsonVariant v, CharBuf& a) { return v[a].set(1); }
bool sk_varkey_ptr(JsonVariant v, char* p) { return v[p].set(1); }
bool sk_varkey_cptr(JsonVariant v, const char* c) { return v[c].set(1); }
bool sk_varkey_literal(JsonVariant v) { return v["lit"].set(1); }
// copyArray from an array of mutable char arrays
typedef char CharBuf2[2][8];
bool sk_copyarray_char_arrays(CharBuf2& src, JsonDocument& d) { return copyArray(src, d); }

// ---- JsonDocument's own thin accessors (unit api_doc) ---------------------------------------------------------------------------
int dq_as_int(JsonDocument& d) { return d.as<int>(); }
float dq_as_float(JsonDocument& d) { return d.as<float>(); }
const char* dq_as_cstr(JsonDocument& d) { return d.as<const char*>(); }
JsonArray dq_as_array(JsonDocument& d) { return d.as<JsonArray>(); }
JsonObjectConst dq_as_objectconst(const JsonDocument& d) { return d.as<JsonObjectConst>(); }
JsonVariantConst dq_as_variantconst(const JsonDocument& d) { return d.as<JsonVariantConst>(); }
bool dq_is_int(const JsonDocument& d) { return d.is<int>(); }
bool dq_is_array(JsonDocument& d) { return d.is<JsonArray>(); }
bool dq_isNull(const JsonDocument& d) { return d.isNull(); }
size_t dq_size(const JsonDocument& d) { return d.size(); }
size_t dq_nesting(const JsonDocument& d) { return d.nesting(); }
bool dq_overflowed(const JsonDocument& d) { return d.overflowed(); }
JsonVariant dq_add_variant(JsonDocument& d) { return d.add<JsonVariant>(); }
bool dq_add_int(JsonDocument& d, int v) { return d.add(v); }
bool dq_add_cstr(JsonDocument& d, const char* s) { return d.add(s); }
void dq_remove_index(JsonDocument& d, size_t i) { d.remove(i); }
void dq_remove_key(JsonDocument& d, const char* k) { d.remove(k); }
JsonVariantConst dq_get_key(const JsonDocument& d, const char* k) { return d[k]; }
JsonVariantConst dq_get_index(const JsonDocument& d, size_t i) { return d[i]; }
JsonVariant dq_to_variant(JsonDocument& d) { return d; }
JsonVariantConst dq_to_variantconst(const JsonDocument& d) { return d; }
}  // namespace api
