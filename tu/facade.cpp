// Instantiation TU (family "facade"): document life cycle -- ResourceManager clear/~/shrinkToFit/swap, JsonDocument special
// members (constructors, destructor, operator=, swap, clear, set), doDeserialize for the const char* readers, and
// MemoryPoolList::operator=(MemoryPoolList&&), which no library code calls (explicit instantiation names it).
// Compiled with clang -fsyntax-only -Xclang -ast-dump=json for the lowering, and included by the generated shim (native replay).
#define ARDUINOJSON_ENABLE_STD_STRING 0
#define ARDUINOJSON_ENABLE_STD_STREAM 0
#define ARDUINOJSON_ENABLE_STRING_VIEW 0
#include <ArduinoJson.hpp>

using namespace ArduinoJson;
using namespace ArduinoJson::detail;

// every member of the pool table, operator=(MemoryPoolList&&) included (access checks do not apply to explicit instantiations)
template class ArduinoJson::detail::MemoryPoolList<ArduinoJson::detail::ResourceManager::SlotData>;

namespace facade {
// the language-level composition of `a = std::move(b)`: the by-value parameter of operator=(JsonDocument) is move-constructed
// from b, swapped with a, and destroyed at the end of the full-expression
void doc_move_assign(JsonDocument& a, JsonDocument& b) {
  a = detail::move(b);
}
// `a = b`: the parameter is copy-constructed (JsonDocument(const JsonDocument&): set()), swapped, destroyed
void doc_copy_assign(JsonDocument& a, const JsonDocument& b) {
  a = b;
}
void rm_ops(ResourceManager* r, VariantData* v, const char* s, size_t n) {
  (void)r->allocVariant();
  (void)r->allocExtension();
  r->clear();
  r->shrinkToFit();
  (void)r->saveString(adaptString(s, n));
  (void)r->size();
  (void)r->overflowed();
  (void)r->allocator();
  (void)v->setString(adaptString(s, n), r);
  (void)v->toArray();
  (void)v->toObject();
  (void)v->addElement(r);
  (void)v->getOrAddMember(adaptString(s, n), r);
  v->clear(r);
}
void rm_swap(ResourceManager& a, ResourceManager& b) {
  swap(a, b);
}
void doc_special(JsonDocument& a, JsonDocument& b, Allocator* al) {
  JsonDocument c(detail::move(a));
  JsonDocument d(b);
  JsonDocument e(al);
  swap(c, d);
}
void doc_ops(JsonDocument& d, JsonDocument& e, JsonVariantConst v, const char* in, size_t n) {
  d.clear();
  (void)d.set(e);
  (void)d.set(v);
  d.shrinkToFit();
  (void)d.overflowed();
  (void)d.isNull();
  (void)d.size();
  (void)d.nesting();
  (void)d.to<JsonArray>();
  (void)d.to<JsonObject>();
  (void)deserializeJson(d, in, n);
  (void)deserializeJson(d, in);
  (void)deserializeMsgPack(d, in, n);
  (void)deserializeMsgPack(d, in);
}
// copying from a source that lives in the destination (F13)
bool doc_set_own_member(JsonDocument& d, const char* k) {
  return d.set(d[k]);
}
bool member_set_own_descendant(JsonDocument& d, const char* k1, const char* k2) {
  return d[k1].set(d[k1][k2]);
}
}  // namespace facade
