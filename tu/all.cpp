// Instantiation TU for ajlower: names the template instantiations whose bodies are lowered to C.
// Compiled only with clang -fsyntax-only -Xclang -ast-dump=json; never linked.
// StubReader / LogWriter / StubVisitor have NO bodies: calls to them become extern C functions that exist only as
// contracts or stubs in /verif/contracts (DESIGN.md section 3/4).
#define ARDUINOJSON_ENABLE_STD_STRING 0
#define ARDUINOJSON_ENABLE_STD_STREAM 0
#define ARDUINOJSON_ENABLE_STRING_VIEW 0
#include <ArduinoJson.hpp>

using namespace ArduinoJson;
using namespace ArduinoJson::detail;

struct StubReader {
  int read();
  size_t readBytes(char*, size_t);
};

struct LogWriter {
  size_t write(uint8_t c);
  size_t write(const uint8_t* s, size_t n);
};

// string-builder sink without body: Utf8::encodeCodepoint<LogBuilder> calls the extern C function LogBuilder__append
struct LogBuilder {
  void append(char c);
};

template class ArduinoJson::detail::JsonDeserializer<StubReader>;
template class ArduinoJson::detail::MsgPackDeserializer<StubReader>;
template class ArduinoJson::detail::JsonSerializer<LogWriter>;
template class ArduinoJson::detail::PrettyJsonSerializer<LogWriter>;
template class ArduinoJson::detail::MsgPackSerializer<LogWriter>;
template class ArduinoJson::detail::TextFormatter<LogWriter>;
template class ArduinoJson::detail::CountingDecorator<LogWriter>;
template class ArduinoJson::detail::Latch<StubReader>;
template class ArduinoJson::detail::IteratorReader<const char*>;
template struct ArduinoJson::detail::Reader<const char*>;
template struct ArduinoJson::detail::BoundedReader<const char*>;

namespace force {
void utf8_log(uint32_t cp, LogBuilder& b) {
  Utf8::encodeCodepoint(cp, b);
}
using DeserializationOption::Filter;
using DeserializationOption::NestingLimit;

DeserializationError json_all(JsonDeserializer<StubReader>& d, VariantData& v, NestingLimit nl) {
  return d.parse(v, AllowAllFilter(), nl);
}
DeserializationError json_filter(JsonDeserializer<StubReader>& d, VariantData& v, Filter f, NestingLimit nl) {
  return d.parse(v, f, nl);
}
DeserializationError mp_all(MsgPackDeserializer<StubReader>& d, VariantData& v, NestingLimit nl) {
  return d.parse(v, AllowAllFilter(), nl);
}
DeserializationError mp_filter(MsgPackDeserializer<StubReader>& d, VariantData& v, Filter f, NestingLimit nl) {
  return d.parse(v, f, nl);
}

// serializers: accept() instantiates visit(...) for every stored kind
size_t ser_json(const VariantData* v, const ResourceManager* r, LogWriter w) {
  JsonSerializer<LogWriter> s(w, r);
  return VariantData::accept(v, r, s);
}
size_t ser_pretty(const VariantData* v, const ResourceManager* r, LogWriter w) {
  PrettyJsonSerializer<LogWriter> s(w, r);
  return VariantData::accept(v, r, s);
}
size_t ser_mp(const VariantData* v, const ResourceManager* r, LogWriter w) {
  MsgPackSerializer<LogWriter> s(w, r);
  return VariantData::accept(v, r, s);
}
size_t ser_buf_json(JsonVariantConst src, void* buf, size_t n) {
  return serialize<JsonSerializer>(src, buf, n);
}
size_t ser_buf_mp(JsonVariantConst src, void* buf, size_t n) {
  return serialize<MsgPackSerializer>(src, buf, n);
}
size_t meas_json(JsonVariantConst src) {
  return measure<JsonSerializer>(src);
}
size_t meas_mp(JsonVariantConst src) {
  return measure<MsgPackSerializer>(src);
}

// numbers
template <typename TOut, typename TIn>
void conv1(TIn v, bool* b, TOut* o) {
  *b = canConvertNumber<TOut>(v);
  *o = convertNumber<TOut>(v);
}
template <typename TIn>
void conv_all(TIn v) {
  bool b;
  { int8_t o; conv1<int8_t>(v, &b, &o); }
  { uint8_t o; conv1<uint8_t>(v, &b, &o); }
  { int16_t o; conv1<int16_t>(v, &b, &o); }
  { uint16_t o; conv1<uint16_t>(v, &b, &o); }
  { int32_t o; conv1<int32_t>(v, &b, &o); }
  { uint32_t o; conv1<uint32_t>(v, &b, &o); }
  { int64_t o; conv1<int64_t>(v, &b, &o); }
  { uint64_t o; conv1<uint64_t>(v, &b, &o); }
  { float o; conv1<float>(v, &b, &o); }
  { double o; conv1<double>(v, &b, &o); }
}
void conv() {
  conv_all<int32_t>(0);
  conv_all<uint32_t>(0);
  conv_all<int64_t>(0);
  conv_all<uint64_t>(0);
  conv_all<float>(0);
  conv_all<double>(0);
}

template <typename T>
void as1(const VariantData* v, const ResourceManager* r, T* o, bool* b) {
  *o = v->asIntegral<T>(r);
  *b = v->isInteger<T>(r);
}
void as_all(const VariantData* v, const ResourceManager* r) {
  bool b;
  { int8_t o; as1(v, r, &o, &b); }
  { uint8_t o; as1(v, r, &o, &b); }
  { int16_t o; as1(v, r, &o, &b); }
  { uint16_t o; as1(v, r, &o, &b); }
  { int32_t o; as1(v, r, &o, &b); }
  { uint32_t o; as1(v, r, &o, &b); }
  { int64_t o; as1(v, r, &o, &b); }
  { uint64_t o; as1(v, r, &o, &b); }
  (void)v->asFloat<float>(r);
  (void)v->asFloat<double>(r);
  (void)v->asBoolean(r);
  (void)v->asString();
  (void)v->asRawString();
}

Number pn(const char* s) {
  return parseNumber(s);
}
template <typename T>
T pnt(const char* s) {
  return parseNumber<T>(s);
}
void pn_all(const char* s) {
  (void)pnt<int8_t>(s); (void)pnt<uint8_t>(s); (void)pnt<int16_t>(s); (void)pnt<uint16_t>(s);
  (void)pnt<int32_t>(s); (void)pnt<uint32_t>(s); (void)pnt<int64_t>(s); (void)pnt<uint64_t>(s);
  (void)pnt<float>(s); (void)pnt<double>(s);
}

// comparisons
template <typename A, typename B>
CompareResult ac(A a, B b) {
  return arithmeticCompare(a, b);
}
void cmp_all() {
  (void)ac<int64_t, int64_t>(0, 0); (void)ac<uint64_t, uint64_t>(0, 0);
  (void)ac<int64_t, uint64_t>(0, 0); (void)ac<uint64_t, int64_t>(0, 0);
  (void)ac<int32_t, int32_t>(0, 0); (void)ac<uint32_t, uint32_t>(0, 0);
  (void)ac<int32_t, uint32_t>(0, 0); (void)ac<uint32_t, int32_t>(0, 0);
  (void)ac<int64_t, int32_t>(0, 0); (void)ac<uint64_t, int32_t>(0, 0);
  (void)ac<int64_t, uint32_t>(0, 0); (void)ac<uint64_t, uint32_t>(0, 0);
  (void)ac<int32_t, int64_t>(0, 0); (void)ac<int32_t, uint64_t>(0, 0);
  (void)ac<uint32_t, int64_t>(0, 0); (void)ac<uint32_t, uint64_t>(0, 0);
  (void)ac<double, double>(0, 0); (void)ac<double, int64_t>(0, 0); (void)ac<int64_t, double>(0, 0);
  (void)ac<double, uint64_t>(0, 0); (void)ac<uint64_t, double>(0, 0);
  (void)ac<float, float>(0, 0); (void)ac<double, float>(0, 0);
  (void)ac<int8_t, int64_t>(0, 0); (void)ac<uint8_t, int64_t>(0, 0);
  (void)ac<int64_t, int8_t>(0, 0); (void)ac<uint64_t, int8_t>(0, 0);
  (void)ac<int64_t, int16_t>(0, 0); (void)ac<uint64_t, int16_t>(0, 0);
  (void)ac<bool, bool>(false, false);
}
CompareResult cmpv(JsonVariantConst a, JsonVariantConst b) {
  return compare(a, b);
}
template <typename T>
CompareResult cmpt(JsonVariantConst a, const T& b) {
  return compare(a, b);
}
void cmp_scalars(JsonVariantConst a) {
  (void)cmpt<int8_t>(a, 0); (void)cmpt<uint8_t>(a, 0); (void)cmpt<int16_t>(a, 0); (void)cmpt<uint16_t>(a, 0);
  (void)cmpt<int32_t>(a, 0); (void)cmpt<uint32_t>(a, 0); (void)cmpt<int64_t>(a, 0); (void)cmpt<uint64_t>(a, 0);
  (void)cmpt<float>(a, 0); (void)cmpt<double>(a, 0); (void)cmpt<bool>(a, false);
  (void)cmpt<const char*>(a, "");
  (void)cmpt<JsonString>(a, JsonString());
  (void)cmpt<SerializedValue<const char*>>(a, serialized(""));
}
bool ops(JsonVariantConst a, JsonVariantConst b) {
  return (a == b) | (a != b) | (a < b) | (a <= b) | (a > b) | (a >= b) | (a == 1) | (1 == a) | (a != 1) | (1 != a) |
         (a < 1) | (1 < a) | (a <= 1) | (1 <= a) | (a > 1) | (1 > a) | (a >= 1) | (1 >= a);
}
bool arr_eq(JsonArrayConst a, JsonArrayConst b) {
  return a == b;
}
bool obj_eq(JsonObjectConst a, JsonObjectConst b) {
  return a == b;
}

// copied zero-terminated strings (char*, char[N]): the adapter kind whose size is strlen()
void mem_cstr(ResourceManager* r, VariantData* v, char* m) {
  (void)r->saveString(adaptString(m));
  (void)v->setString(adaptString(m), r);
}

// memory layer + collections + variants
void mem(ResourceManager* r, VariantData* v, ArrayData* a, ObjectData* o, CollectionData* c, const char* s, size_t n) {
  (void)r->allocVariant();
  (void)r->allocExtension();
  r->clear();
  r->shrinkToFit();
  (void)r->saveString(adaptString(s, n));
  (void)r->saveString(adaptString(s));
  (void)v->setString(adaptString(s, n), r);
  (void)v->setString(adaptString(s), r);
  (void)v->setString(adaptString("lit"), r);
  (void)v->setInteger(int64_t(0), r);
  (void)v->setInteger(uint64_t(0), r);
  (void)v->setInteger(int32_t(0), r);
  (void)v->setInteger(uint32_t(0), r);
  (void)v->setFloat(0.0, r);
  (void)v->setFloat(0.0f, r);
  v->setBoolean(true);
  (void)v->toArray();
  (void)v->toObject();
  v->clear(r);
  (void)v->size(r);
  (void)v->nesting(r);
  (void)v->addElement(r);
  (void)v->getElement(0, r);
  (void)v->getOrAddElement(0, r);
  (void)v->getMember(adaptString(s, n), r);
  (void)v->getOrAddMember(adaptString(s, n), r);
  v->removeElement(0, r);
  v->removeMember(adaptString(s, n), r);
  v->setRawString(serialized(s, n), r);
  (void)a->addElement(r);
  (void)a->getElement(0, r);
  (void)a->getOrAddElement(0, r);
  a->removeElement(0, r);
  (void)o->addMember(adaptString(s, n), r);
  (void)o->getMember(adaptString(s, n), r);
  (void)o->getMember(adaptString(s), r);
  (void)o->getOrAddMember(adaptString(s, n), r);
  o->removeMember(adaptString(s, n), r);
  (void)o->size(r);
  c->clear(r);
  (void)c->size(r);
  (void)c->nesting(r);
  (void)c->createIterator(r);
  StringBuilder sb(r);
  sb.startString();
  sb.append('c');
  sb.append(s);
  sb.append(s, n);
  (void)sb.isValid();
  (void)sb.size();
  (void)sb.str();
  (void)sb.save();
  StringBuffer sf(r);
  (void)sf.reserve(n);
  (void)sf.save();
  (void)sf.str();
  (void)r->size();
  (void)r->overflowed();
}
void mem2(ResourceManager& a, ResourceManager& b) {
  swap(a, b);
}
void mem3(JsonDocument& a, JsonDocument& b) {
  a = detail::move(b);
  JsonDocument c(detail::move(a));
  JsonDocument d(b);
  a = d;
}
void filt(DeserializationOption::Filter f, const char* k, JsonString js) {
  (void)f.allow();
  (void)f.allowArray();
  (void)f.allowObject();
  (void)f.allowValue();
  (void)f[k];
  (void)f[js];
  (void)f[0];
}
size_t copy_arr(JsonArrayConst src, int* dst, size_t len) {
  return copyArray(src, dst, len);
}
size_t copy_str(JsonVariantConst src, char (&dst)[16]) {
  return copyArray(src, dst);
}
void doc_ops(JsonDocument& d, JsonDocument& e, const char* in, size_t n) {
  d.clear();
  (void)d.to<JsonArray>();
  (void)d.to<JsonObject>();
  (void)d.set(e);
  (void)d.set(e.as<JsonVariantConst>());
  d.shrinkToFit();
  (void)deserializeJson(d, in, n);
  (void)deserializeJson(d, in);
  (void)deserializeMsgPack(d, in, n);
  JsonVariant v = d.as<JsonVariant>();
  (void)v.set(e.as<JsonVariantConst>());
  (void)v.add<JsonVariant>();
  (void)d["k"].set(e["k"]);
  (void)d[0].set(e[0]);
  JsonArray a = d.as<JsonArray>();
  (void)a.set(e.as<JsonArrayConst>());
  JsonObject o = d.as<JsonObject>();
  (void)o.set(e.as<JsonObjectConst>());
}
}  // namespace force
